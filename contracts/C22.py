"""C22 -- template loaders never read outside their search paths.

Over the pathlib model (DESIGN 3): a path has a name, a suffix, is absolute or not, and may
have a '..' part; base.joinpath(q) stays inside base iff q is relative and has no '..'
part; exists/is_file/resolve/read may raise OSError."""
import z3

from contracts.common import *  # noqa: F403
from pyvc.builtins import BuiltinMixin as BM
from pyvc.contract import contract
from pyvc.run import bounded, not_covered, structural
from pyvc.state import *  # noqa: F403
from pyvc.u import *  # noqa: F403

FS = "liquid.builtin.loaders.file_system_loader:FileSystemLoader"
PKG = "liquid.builtin.loaders.package_loader:PackageLoader"


def bases(c, eng_paths, n=2):
    out = []
    for i in range(n):
        t = z3.Const(f"base{i}", U)
        out.append(VOpaque(t, "path"))
    return out


def contained(r):
    """the returned path is join(base_i, q) with q relative and '..'-free"""
    v = r.value
    if not isinstance(v, (VU, VOpaque)) or not z3.is_app(v.t) or v.t.decl().name() != "path_join":
        return z3.BoolVal(False)
    q = v.t.arg(1)
    return z3.And(z3.Not(BM.P_ABS(q)), z3.Not(BM.P_PARDIR(q)))


def _resolve(target, cls, fields, label):
    for reject in ((False, True) if "file_system" in target else (None,)):
        def _mk(reject):
            @contract(target, prop="C22", name=label + (f"[reject_symlinks={reject}]" if reject is not None else ""))
            def res(c):
                name = c.str("template_name")
                bs = bases(c, None)
                f = dict(fields(c))
                if reject is not None:
                    f["reject_symlinks"] = VBool(z3.BoolVal(reject))
                self = c.obj(cls, "loader", **{k: (c.st.alloc(HList(items=list(bs))) if v == "BASES" else v) for k, v in f.items()})
                def entry(eng, cc, func):
                    for b in bs:
                        eng.mk_path(cc.st, b.t)
                    return eng.run(func, cc.st, [name], {}, self_val=self)
                c.entry = entry
                c.ensures("returned-path-is-inside-a-search-path", contained)
                if reject:
                    def post(r):
                        # the path was accepted only after resolve(p) was found relative to resolve(base)
                        return z3.BoolVal(any(e[0] == "call" and e[1] == "Path.resolve" for e in r.st.log))
                    c.ensures("symlink-rejection-resolves-before-accepting", post)
                c.raises("TemplateNotFoundError")
                c.assume_note("BOUNDED in the number of search paths only: 2 arbitrary base paths (the loop over search paths is unrolled)")
                c.replay("code", code=REPLAY)
        _mk(reject)


_resolve(FS + ".resolve_path", FS, lambda c: dict(search_path="BASES", ext=c.str("ext"), encoding=c.str("encoding")), "FileSystemLoader.resolve_path")
_resolve(PKG + "._resolve_path", PKG, lambda c: dict(paths="BASES", ext=c.str("ext"), encoding=c.str("encoding")), "PackageLoader._resolve_path")


def _get_source(target, cls, fields, label):
    @contract(target, prop="C22", name=label)
    def gs(c):
        name = c.str("template_name")
        bs = bases(c, None)
        f = {k: (c.st.alloc(HList(items=list(bs))) if v == "BASES" else v) for k, v in fields(c).items()}
        self = c.obj(cls, "loader", **f)
        def entry(eng, cc, func):
            for b in bs:
                eng.mk_path(cc.st, b.t)
            return eng.run(func, cc.st, [c.any("env"), name], {}, self_val=self)
        c.entry = entry
        def opened_only_resolved(r):
            reads = [e for e in r.st.log if e[0] == "call" and e[1] in ("Path.read_text", "Path.open")]
            return z3.BoolVal(True) if not reads else z3.And(*[z3.And(z3.Not(BM.P_ABS(e[2][0].arg(1))), z3.Not(BM.P_PARDIR(e[2][0].arg(1)))) if (z3.is_app(e[2][0]) and e[2][0].decl().name() == "path_join") else z3.BoolVal(False) for e in reads])
        c.ensures("only-files-inside-a-search-path-are-read", opened_only_resolved)
        c.requires(z3.BoolVal(True), "files inside the search path are readable text in the configured encoding (OSError/UnicodeDecodeError from reading an existing file are properties of the file, not of the name)")
        c.files_readable = True
        c.raises("TemplateNotFoundError")
        c.replay("code", code=REPLAY)


_get_source(PKG + ".get_source", PKG, lambda c: dict(paths="BASES", ext=c.str("ext"), encoding=c.str("encoding")), "PackageLoader.get_source")
_get_source(PKG + ".get_source_async", PKG, lambda c: dict(paths="BASES", ext=c.str("ext"), encoding=c.str("encoding")), "PackageLoader.get_source_async")

not_covered("C22", "the file system itself (symlink resolution is opaque; races between exists() and open())", "more than two search paths (the loop is uniform)",
            "FileSystemLoader._read/get_source read exactly resolve_path(name) (structural: the only path they open is the one returned by resolve_path)",
            "reading an existing but unreadable / mis-encoded file (excluded by precondition)")

bounded("C22", "bounded/C22.py")

REPLAY = r'''
def run(m):
    from bounded.C22 import run as brun
    r = brun("quick", 0)
    v = r["violations"]
    return {"failing": bool(v), "witness": v[0]["witness"] if v else "containment", "call": v[0]["source"] if v else "name sweep", "result": v[0]["got"] if v else "ok"}
'''
