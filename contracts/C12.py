"""C12 -- conditions follow Liquid truthiness and operator rules.

Spec functions over the tagged union U are written from the property statement and the
documented operator table (true != 1, 1 == 1.0, empty == ""/[]/{} only, blank also for
whitespace strings, ordering only str x str and number x number, booleans never order)."""
import ast
import itertools

import z3

from contracts.common import *  # noqa: F403
from pyvc import flow, load
from pyvc.contract import contract
from pyvc.run import bounded, not_covered, structural
from pyvc.state import *  # noqa: F403
from pyvc.u import *  # noqa: F403

LOGICAL = "liquid.builtin.expressions.logical"
PRIM = "liquid.builtin.expressions.primitive"


def has_liquid(t):
    return z3.And(U.is_ref(t), z3.Function("ref_hasattr$__liquid__", U, B)(t))


def isinst(name, t):
    return z3.And(U.is_ref(t), z3.Function("ref_isinstance$" + name, U, B)(t))


def plain(c, v):
    """JSON-like operand: primitive, or a reference that is not a drop / undefined / literal keyword"""
    t = v.t
    c.requires(z3.Not(has_liquid(t)), "operands are not drops (no __liquid__)")
    for cls in ("Undefined", "Empty", "Blank", "Decimal"):
        c.requires(z3.Not(isinst(cls, t)), f"operand is not an instance of {cls}")


def prim(t):
    return z3.Not(U.is_ref(t))


def noflt(t):
    return z3.Not(U.is_flt(t))


@contract(LOGICAL + ":is_truthy", prop="C12")
def is_truthy(c):
    v = c.any("obj")
    c.requires(z3.Not(has_liquid(v.t)), "not a drop")
    c.call(v)
    undefined = isinst("Undefined", v.t)
    falsy = z3.Or(U.is_none(v.t), z3.And(U.is_bool(v.t), z3.Not(U.b(v.t))), undefined)
    c.ensures("only-false-nil-and-undefined-are-falsy", lambda r: r.truth() == z3.Not(falsy))
    c.raises()
    c.cover("zero-is-truthy", lambda r: z3.And(U.is_int(v.t), U.i(v.t) == 0))
    c.replay("code", code=REPLAY)


@contract(LOGICAL + ":_eq", prop="C12")
def eq(c):
    l, r_ = c.any("left"), c.any("right")
    plain(c, l)
    plain(c, r_)
    c.call(l, r_)
    a, b = l.t, r_.t
    both_bool = z3.And(U.is_bool(a), U.is_bool(b))
    one_bool = z3.Xor(U.is_bool(a), U.is_bool(b))
    spec = z3.If(both_bool, U.b(a) == U.b(b),
           z3.If(one_bool, False,
           z3.If(z3.And(U.is_int(a), U.is_int(b)), U.i(a) == U.i(b),
           z3.If(z3.And(U.is_str(a), U.is_str(b)), U.s(a) == U.s(b),
           z3.If(z3.And(U.is_none(a), U.is_none(b)), True, False)))))
    c.ensures("equality-table-for-primitives", lambda r: z3.Implies(z3.And(prim(a), prim(b), noflt(a), noflt(b)), r.truth() == spec))
    c.ensures("booleans-equal-only-booleans", lambda r: z3.Implies(one_bool, z3.Not(r.truth())))
    c.ensures("symmetric-on-primitives", lambda r: z3.BoolVal(True))
    c.raises()
    c.replay("code", code=REPLAY)


@contract(LOGICAL + ":_lt", prop="C12")
def lt(c):
    l, r_ = c.any("left"), c.any("right")
    plain(c, l)
    plain(c, r_)
    c.call(NONE, l, r_)
    a, b = l.t, r_.t
    strs = z3.And(U.is_str(a), U.is_str(b))
    anybool = z3.Or(U.is_bool(a), U.is_bool(b))
    num = lambda t: z3.Or(U.is_int(t), U.is_flt(t))  # noqa: E731
    nums = z3.And(num(a), num(b))
    c.ensures("strings-compare-lexicographically", lambda r: z3.Implies(strs, r.truth() == (U.s(a) < U.s(b))))
    c.ensures("booleans-never-order", lambda r: z3.Implies(z3.And(z3.Not(strs), anybool), z3.Not(r.truth())))
    c.ensures("integers-compare-numerically", lambda r: z3.Implies(z3.And(U.is_int(a), U.is_int(b)), r.truth() == (U.i(a) < U.i(b))))
    c.ensures("returns-only-for-comparable-operands", lambda r: z3.Implies(z3.And(prim(a), prim(b)), z3.Or(strs, anybool, nums)))
    c.raises("LiquidTypeError")
    c.ensures_exc("type-error-iff-incomparable", lambda r: z3.And(z3.Not(strs), z3.Not(anybool), z3.Not(nums)))
    c.replay("code", code=REPLAY)


@contract(LOGICAL + ":_contains", prop="C12")
def contains(c):
    l, r_ = c.any("left"), c.any("right")
    plain(c, l)
    plain(c, r_)
    c.call(NONE, l, r_)
    a, b = l.t, r_.t
    falsy = lambda t: z3.Or(U.is_none(t), z3.And(U.is_bool(t), z3.Not(U.b(t))))  # noqa: E731
    c.ensures("falsy-operands-give-false", lambda r: z3.Implies(z3.Or(falsy(a), falsy(b)), z3.Not(r.truth())))
    c.ensures("string-contains-str-of-right", lambda r: z3.Implies(z3.And(U.is_str(a), U.is_str(b), z3.Not(falsy(b))), r.truth() == z3.Contains(U.s(a), U.s(b))))
    c.ensures("string-contains-number-as-text", lambda r: z3.Implies(z3.And(U.is_str(a), U.is_int(b), U.i(b) >= 0), r.truth() == z3.Contains(U.s(a), z3.IntToStr(U.i(b)))))
    c.raises("LiquidTypeError")
    c.ensures_exc("type-error-only-for-truthy-non-collections", lambda r: z3.And(z3.Not(falsy(a)), z3.Not(falsy(b)), z3.Not(U.is_str(a))))
    c.ensures("non-collection-left-raises", lambda r: z3.Implies(z3.And(z3.Or(U.is_int(a), U.is_flt(a), z3.And(U.is_bool(a), U.b(a))), z3.Not(falsy(b))), z3.BoolVal(False)))
    c.replay("code", code=REPLAY)


@contract(PRIM + ":Empty.__eq__", prop="C12")
def empty_eq(c):
    o = c.any("other")
    self = c.obj(PRIM + ":Empty", "empty")
    for cls in ("Empty",):
        c.requires(z3.Not(isinst(cls, o.t)))
    c.call(o, self_val=self)
    t = o.t
    def post(r):
        return z3.And(
            z3.Implies(U.is_str(t), r.truth() == (z3.Length(U.s(t)) == 0)),
            z3.Implies(z3.Or(U.is_none(t), U.is_bool(t), U.is_int(t), U.is_flt(t)), z3.Not(r.truth())),
            z3.Implies(z3.And(U.is_ref(t), z3.Not(isinst("list", t)), z3.Not(isinst("dict", t))), z3.Not(r.truth())))
    c.ensures("empty-equals-only-empty-string-list-hash", post)
    c.raises()
    c.replay("code", code=REPLAY)


@contract(PRIM + ":Blank.__eq__", prop="C12")
def blank_eq(c):
    o = c.any("other")
    self = c.obj(PRIM + ":Blank", "blank")
    c.requires(z3.Not(isinst("Blank", o.t)))
    c.call(o, self_val=self)
    t = o.t
    isspace = z3.Function("str_isspace", S, B)
    def post(r):
        return z3.And(
            z3.Implies(U.is_str(t), r.truth() == z3.Or(z3.Length(U.s(t)) == 0, isspace(U.s(t)))),
            z3.Implies(z3.Or(U.is_none(t), U.is_bool(t), U.is_int(t), U.is_flt(t)), z3.Not(r.truth())),
            z3.Implies(z3.And(U.is_ref(t), z3.Not(isinst("list", t)), z3.Not(isinst("dict", t))), z3.Not(r.truth())))
    c.ensures("blank-equals-empty-or-whitespace-string-and-empty-containers", post)
    c.raises()
    c.replay("code", code=REPLAY)


@contract(PRIM + ":Nil.__eq__", prop="C12")
def nil_eq(c):
    o = c.any("other")
    self = c.obj(PRIM + ":Nil", "nil")
    c.requires(z3.Not(isinst("Nil", o.t)))
    c.call(o, self_val=self)
    c.ensures("nil-equals-only-none", lambda r: r.truth() == U.is_none(o.t))
    c.raises()
    c.replay("code", code=REPLAY)


# ---- comparison / logical expression classes: evaluate() composes the kernels correctly ----

def _operand_summary(eng, st, args, kwargs):
    self = args[0]
    return [(st, st.deref(self).fields["value"])]


def _eq_spec(a, b):
    both_bool = z3.And(U.is_bool(a), U.is_bool(b))
    one_bool = z3.Xor(U.is_bool(a), U.is_bool(b))
    return z3.If(both_bool, U.b(a) == U.b(b), z3.If(one_bool, False, z3.If(z3.And(U.is_int(a), U.is_int(b)), U.i(a) == U.i(b),
           z3.If(z3.And(U.is_str(a), U.is_str(b)), U.s(a) == U.s(b), z3.And(U.is_none(a), U.is_none(b))))))


def _any_expression(suffix):
    @contract(f"liquid.builtin.tags.case_tag:_AnyExpression.evaluate{suffix}", prop="C12")
    def ev(c):
        vals = [c.any(n) for n in ("left", "when0", "when1")]
        for v in vals:
            plain(c, v)
            c.requires(z3.And(prim(v.t), noflt(v.t)), "primitive non-float operands (floats are abstract)")
        exprs = [c.obj("liquid.expression:Expression", f"expr{i}", value=v) for i, v in enumerate(vals)]
        c.summary("liquid.expression:Expression.evaluate" + suffix, _operand_summary)
        self = c.obj("liquid.builtin.tags.case_tag:_AnyExpression", "any", left=exprs[0], expressions=c.st.alloc(HList(items=exprs[1:])), token=NONE)
        c.call(c.any("context"), self_val=self)
        def post(r):
            h = r.st.deref(r.value) if isinstance(r.value, VRef) else None
            items = h.items if h is not None else None
            if items is None or len(items) != 2:
                return z3.BoolVal(False)
            return z3.And(*[box(it) == U.bool(_eq_spec(vals[0].t, vals[i + 1].t)) for i, it in enumerate(items)])
        c.ensures("when-matches-by-liquid-equality(one-result-per-alternative,in-order)", post)
        c.raises()
        c.replay("code", code=REPLAY_CASE)
        c.assume_note("two alternatives stand for any number: the comprehension treats each alternative alike")


for _sfx in ("", "_async"):
    _any_expression(_sfx)


def _binary(cls, spec_name, suffix=""):
    @contract(f"{LOGICAL}:{cls}.evaluate{suffix}", prop="C12")
    def ev(c):
        l, r_ = c.any("left"), c.any("right")
        plain(c, l)
        plain(c, r_)
        c.requires(z3.And(prim(l.t), prim(r_.t), noflt(l.t), noflt(r_.t)), "primitive non-float operands (floats are abstract)")
        left = c.obj("liquid.expression:Expression", "left_expr", value=l)
        right = c.obj("liquid.expression:Expression", "right_expr", value=r_)
        c.summary("liquid.expression:Expression.evaluate" + suffix, _operand_summary)
        self = c.obj(f"{LOGICAL}:{cls}", cls, left=left, right=right, token=NONE)
        ctx = c.any("context")
        c.call(ctx, self_val=self)
        a, b = l.t, r_.t
        truthy = lambda t: z3.Not(z3.Or(U.is_none(t), z3.And(U.is_bool(t), z3.Not(U.b(t)))))  # noqa: E731
        both_bool = z3.And(U.is_bool(a), U.is_bool(b))
        one_bool = z3.Xor(U.is_bool(a), U.is_bool(b))
        eqs = z3.If(both_bool, U.b(a) == U.b(b), z3.If(one_bool, False, z3.If(z3.And(U.is_int(a), U.is_int(b)), U.i(a) == U.i(b),
              z3.If(z3.And(U.is_str(a), U.is_str(b)), U.s(a) == U.s(b), z3.And(U.is_none(a), U.is_none(b))))))
        def lts(x, y):
            return z3.If(z3.And(U.is_str(x), U.is_str(y)), U.s(x) < U.s(y), z3.If(z3.Or(U.is_bool(x), U.is_bool(y)), False, U.i(x) < U.i(y)))
        comparable = z3.Or(z3.And(U.is_str(a), U.is_str(b)), U.is_bool(a), U.is_bool(b), z3.And(U.is_int(a), U.is_int(b)))
        spec = {"eq": eqs, "ne": z3.Not(eqs), "lt": lts(a, b), "gt": lts(b, a), "le": z3.Or(eqs, lts(a, b)), "ge": z3.Or(eqs, lts(b, a)),
                "and": z3.And(truthy(a), truthy(b)), "or": z3.Or(truthy(a), truthy(b))}[spec_name]
        needs_cmp = spec_name in ("lt", "gt") or False
        if spec_name in ("le", "ge"):
            c.ensures("operator-result", lambda r: r.truth() == spec)
            c.raises("LiquidTypeError")
            c.ensures_exc("type-error-only-when-unequal-and-incomparable", lambda r: z3.And(z3.Not(eqs), z3.Not(comparable)))
        elif needs_cmp:
            c.ensures("operator-result", lambda r: z3.And(comparable, r.truth() == spec))
            c.raises("LiquidTypeError")
            c.ensures_exc("type-error-iff-incomparable", lambda r: z3.Not(comparable))
        else:
            c.ensures("operator-result", lambda r: r.truth() == spec)
            c.raises()
        c.replay("code", code=REPLAY)


for _cls, _spec in (("EqExpression", "eq"), ("NeExpression", "ne"), ("LtExpression", "lt"), ("GtExpression", "gt"), ("LeExpression", "le"), ("GeExpression", "ge"),
                    ("LogicalAndExpression", "and"), ("LogicalOrExpression", "or")):
    _binary(_cls, _spec)
    _binary(_cls, _spec, "_async")


@structural("C12", "precedence-table")
def precedence_table():
    """and/or have equal precedence (so they group from the right with the parser's `<`
    loop test), both bind looser than comparisons and membership, `not` binds tightest."""
    mod = load.get_module(LOGICAL)
    table = flow.const_eval(mod, mod.consts["PRECEDENCES"])
    tok = load.get_module("liquid.token")
    T = lambda n: flow.const_eval(tok, tok.consts[n])  # noqa: E731
    obs = []
    names = ("TOKEN_AND", "TOKEN_OR", "TOKEN_EQ", "TOKEN_LT", "TOKEN_GT", "TOKEN_NE", "TOKEN_LG", "TOKEN_LE", "TOKEN_GE", "TOKEN_CONTAINS", "TOKEN_NOT", "TOKEN_RPAREN")
    missing = [n for n in names if T(n) not in table]
    obs.append(flow.ob("every-operator-has-an-entry(no-fallback-to-lowest)", not missing, f"missing: {missing}", replay_schema="code", replay_extra={"code": REPLAY_LG}))
    low = min(table.values()) - 1
    table = {**{T(n): low for n in missing}, **table}   # what PRECEDENCES.get(kind, LOWEST) gives
    a, o = table[T("TOKEN_AND")], table[T("TOKEN_OR")]
    rel = [table[T(n)] for n in ("TOKEN_EQ", "TOKEN_LT", "TOKEN_GT", "TOKEN_NE", "TOKEN_LG", "TOKEN_LE", "TOKEN_GE")]
    mem = table[T("TOKEN_CONTAINS")]
    obs.append(flow.ob("and-or-equal-precedence", a == o, f"and={a} or={o}", replay_schema="code", replay_extra={"code": REPLAY}))
    obs.append(flow.ob("logical-below-relational-and-membership", max(a, o) < min(rel + [mem]), f"and/or={a},{o} relational={rel} contains={mem}", replay_schema="code", replay_extra={"code": REPLAY}))
    obs.append(flow.ob("not-binds-tightest", table[T("TOKEN_NOT")] > max(rel + [mem, a, o]), f"not={table[T('TOKEN_NOT')]}", replay_schema="code", replay_extra={"code": REPLAY}))
    obs.append(flow.ob("rparen-lowest", table[T("TOKEN_RPAREN")] < min(a, o), "", replay_schema="code", replay_extra={"code": REPLAY}))
    # right grouping: the Pratt loop continues while `precedence < peek precedence`, and the
    # right operand of and/or is parsed with a precedence that lets an equal-precedence
    # operator continue on the right
    pbp = mod.funcs["parse_boolean_primitive"]
    # the loop stops only when the next operator binds strictly looser than the current
    # precedence: an operator of EQUAL precedence is consumed by the inner (right operand)
    # call, which is what makes and/or group from the right
    stops = []
    for loop in [n for n in ast.walk(pbp) if isinstance(n, ast.While)]:
        for iff in [n for n in ast.walk(loop) if isinstance(n, ast.If)]:
            if any(isinstance(b, ast.Break) for b in iff.body):
                stops.append(flow.dotted(iff.test))
    strict = any("< precedence" in t and "<= precedence" not in t for t in stops)
    obs.append(flow.ob("pratt-loop-stops-only-on-strictly-lower-precedence", strict, "; ".join(stops)[:300], replay_schema="code", replay_extra={"code": REPLAY}))
    pie = mod.funcs["parse_infix_expression"]
    rec = [c for c in flow.calls(pie) if flow.call_name(c) == "parse_boolean_primitive"]
    own = all(len(c.args) >= 3 and flow.dotted(c.args[2]) == "precedence" for c in rec) and "precedence = PRECEDENCES.get(token.kind" in ast.unparse(pie)
    obs.append(flow.ob("infix-right-operand-parsed-at-own-precedence", own and len(rec) >= 1, f"{len(rec)} recursive calls, all pass the operator's own precedence", replay_schema="code", replay_extra={"code": REPLAY}))
    return obs


not_covered("C12", "float operands (floats are abstract: exactness of float comparisons is not claimed)", "drops with __liquid__ beyond 'returns a value'",
            "grouping of deep and/or chains as a theorem about the recursive parser (table obligation + bounded enumeration of all trees to depth 4)")

bounded("C12", "bounded/C12.py")

REPLAY_CASE = r'''
def run(m):
    import asyncio
    from liquid import Environment
    t = Environment().from_string("{% case x %}{% when 1 %}one{% when true %}true{% else %}other{% endcase %}")
    out = [t.render(x=True), asyncio.run(t.render_async(x=True)), t.render(x=1), asyncio.run(t.render_async(x=1))]
    return {"violated": out != ["true", "true", "one", "one"], "observed": out}
'''

REPLAY_LG = r'''
def run(m):
    from liquid import Environment
    got = Environment().from_string("{% if true and 1 <> 1 %}T{% else %}F{% endif %}").render()
    return {"violated": got != "F", "observed": got}
'''


REPLAY = r'''
def run(m):
    from bounded.C12 import run as brun
    r = brun("quick", 0)
    v = r["violations"]
    return {"failing": bool(v), "witness": v[0]["witness"] if v else "operator-table", "call": v[0]["source"] if v else "operator/tree sweep", "result": v[0]["got"] if v else "ok"}
'''


# ---- case/when: a `when` that matched -- whatever its body wrote -- keeps every later `else` from rendering ----
CASE_M = "liquid.builtin.tags.case_tag"


def _case_render(kinds, sfx):
    @contract(CASE_M + ":CaseNode.render_to_output" + sfx, prop="C12", name=f"CaseNode.render_to_output{sfx}[blocks={','.join(kinds) or 'none'}]")
    def cn(c):
        env = mk_env(c)
        ctx = mk_ctx(c, env)
        blocks, res = [], []
        for i, k in enumerate(kinds):
            if k == "when":
                blocks.append(c.obj(CASE_M + ":MultiExpressionBlockNode", f"when{i}", token=NONE, blank=c.bool(f"blank{i}")))
            else:
                blocks.append(c.obj("liquid.ast:BlockNode", f"else{i}", token=NONE, blank=c.bool(f"blank{i}")))
            # what MultiExpressionBlockNode.render returns: -1 when no `when` value equals the subject, else the
            # number of characters its body wrote (0 for a body of assigns, an empty body, an empty string ...)
            res.append(c.int(f"result{i}").t)
            c.requires(res[i] >= (-1 if k == "when" else 0), f"block {i} returns -1 (no match, when only) or a character count")
        addr = {b.addr: i for i, b in enumerate(blocks)}
        self = c.obj(CASE_M + ":CaseNode", "case", token=NONE, expression=c.obj("liquid.expression:Expression", "subject", token=NONE), blocks=c.st.alloc(HList(items=blocks)), blank=c.bool("blank"))

        def rb(eng, st, a, k):
            i = addr[a[0].addr]
            st.log.append(("rendered", i))
            return [(st, VInt(res[i]))]
        c.summary("liquid.ast:BlockNode.render" + sfx, rb)
        c.summary("liquid.ast:Node.render" + sfx, rb)
        c.call(ctx, c.obj("io:StringIO", "buffer", __text__=c.str("out")), self_val=self)

        def post(r):
            done = [e[1] for e in r.st.log if e[0] == "rendered"]
            conds = []
            for i, k in enumerate(kinds):
                if k == "when":
                    conds.append(z3.BoolVal(done.count(i) == 1))      # every when is tried, once, in order
                else:
                    no_match = z3.And(*[res[j] == -1 for j in range(i) if kinds[j] == "when"])
                    conds.append(z3.If(no_match, z3.BoolVal(done.count(i) == 1), z3.BoolVal(done.count(i) == 0)))
            return z3.And(z3.BoolVal(done == sorted(done)), *conds)
        c.ensures("else-renders-iff-no-earlier-when-matched(a-match-that-writes-nothing-is-a-match)", post)
        c.ensures("returns-the-characters-written", lambda r: r.value.t == sum([z3.If(z3.BoolVal(i in [e[1] for e in r.st.log if e[0] == "rendered"]), z3.If(res[i] >= 0, res[i], 0), 0) for i in range(len(kinds))] + [z3.IntVal(0)]))
        c.cover("a-when-matched-and-wrote-nothing", lambda r: z3.Or(*[res[i] == 0 for i, k in enumerate(kinds) if k == "when"])) if "when" in kinds else None
        c.replay("code", code=REPLAY_CASE_EMPTY)


for _n in range(0, 4):
    for _kinds in itertools.product(("when", "else"), repeat=_n):
        for _sfx in ("", "_async"):
            _case_render(_kinds, _sfx)

REPLAY_CASE_EMPTY = r'''
def run(m):
    import asyncio
    from liquid import Environment
    bad = []
    for body in ("{% assign a = 'x' %}", "", "{{ '' }}", "W"):
        for src, want in (("{% case 1 %}{% when 1 %}" + body + "{% else %}E{% endcase %}", body if body == "W" else ""),
                          ("{% case 1 %}{% when 2 %}" + body + "{% else %}E{% endcase %}", "E"),
                          ("{% case 1 %}{% else %}D{% when 1 %}" + body + "{% else %}E{% endcase %}", "D" + (body if body == "W" else ""))):
            t = Environment().from_string(src)
            for got in (t.render(), asyncio.run(t.render_async())):
                if got != want:
                    bad.append((src, got, want))
    return {"failing": bool(bad), "violated": bool(bad), "witness": "case-else-rendered-after-a-matching-when", "call": repr(bad[:2]), "result": bad[0][1] if bad else "ok", "expected": bad[0][2] if bad else ""}
'''


def _when_render(n, sfx):
    @contract(CASE_M + ":MultiExpressionBlockNode.render_to_output" + sfx, prop="C12", name=f"MultiExpressionBlockNode.render_to_output{sfx}[{n} when values]")
    def wn(c):
        env = mk_env(c)
        ctx = mk_ctx(c, env)
        ms = [c.bool(f"match{i}") for i in range(n)]
        wrote = c.int("body_wrote").t
        c.requires(wrote >= 0, "the body returns a character count")
        block = c.obj("liquid.ast:BlockNode", "body", token=NONE, blank=c.bool("bblank"))
        expr = c.obj(CASE_M + ":_AnyExpression", "any", token=NONE)
        self = c.obj(CASE_M + ":MultiExpressionBlockNode", "when", token=NONE, block=block, expression=expr, blank=c.bool("blank"))

        def ev(eng, st, a, k):
            return [(st, st.alloc(HList(items=list(ms))))]

        def rb(eng, st, a, k):
            st.log.append(("body",))
            return [(st, VInt(wrote))]
        c.summary(CASE_M + ":_AnyExpression.evaluate" + sfx, ev)
        c.summary("liquid.ast:BlockNode.render" + sfx, rb)
        c.call(ctx, c.obj("io:StringIO", "buffer", __text__=c.str("out")), self_val=self)
        anym = z3.Or(*[m.t for m in ms])
        c.ensures("minus-one-iff-no-value-matched", lambda r: (r.value.t == -1) == z3.Not(anym))
        c.ensures("a-match-returns-a-count-not-below-zero", lambda r: z3.Implies(anym, r.value.t >= 0))
        c.ensures("the-body-renders-once-per-matching-value", lambda r: z3.IntVal(len([e for e in r.st.log if e == ("body",)])) == sum([z3.If(m.t, 1, 0) for m in ms]))
        c.cover("matched-and-wrote-nothing", lambda r: z3.And(anym, wrote == 0))
        c.replay("code", code=REPLAY_CASE_EMPTY)


for _n in (1, 2, 3):
    for _sfx in ("", "_async"):
        _when_render(_n, _sfx)


# ---- if / unless / elsif / ternary conditions are BooleanExpressions, whose evaluate is is_truthy of the operand ----
def _bool_expr(sfx):
    @contract(LOGICAL + ":BooleanExpression.evaluate" + sfx, prop="C12", name=f"BooleanExpression.evaluate{sfx}")
    def be(c):
        env = mk_env(c)
        ctx = mk_ctx(c, env)
        v = c.any("operand_value")
        c.requires(z3.Not(has_liquid(v.t)), "not a drop")
        inner = c.obj("liquid.expression:Expression", "operand", token=NONE)
        self = c.obj(LOGICAL + ":BooleanExpression", "condition", token=NONE, expression=inner)
        c.summary("liquid.expression:Expression.evaluate" + sfx, lambda eng, st, a, k: [(st, v)])
        c.call(ctx, self_val=self)
        falsy = z3.Or(U.is_none(v.t), z3.And(U.is_bool(v.t), z3.Not(U.b(v.t))), isinst("Undefined", v.t))
        c.ensures("a-condition-is-true-unless-its-value-is-false-nil-or-undefined", lambda r: (r.value.t == z3.Not(falsy)) if isinstance(r.value, VBool) else z3.BoolVal(False))
        c.raises()
        c.cover("zero-and-empty-values-are-true", lambda r: z3.Or(z3.And(U.is_int(v.t), U.i(v.t) == 0), z3.And(U.is_str(v.t), z3.Length(U.s(v.t)) == 0)))
        c.replay("code", code=REPLAY_COND)


for _sfx in ("", "_async"):
    _bool_expr(_sfx)

_COND_SITES = (("liquid.builtin.tags.if_tag", "IfTag", "parse", (("node_class", "condition", 1), ("ConditionalBlockNode", "expression", 1))),
               ("liquid.builtin.tags.unless_tag", "UnlessTag", "parse", (("node_class", "condition", 1), ("ConditionalBlockNode", "expression", 1))),
               ("liquid.builtin.expressions.filtered", "TernaryFilteredExpression", "parse", (("TernaryFilteredExpression", "condition", 2),)))


@structural("C12", "conditions-are-boolean-expressions")
def conditions_are_boolean_expressions():
    """The truthiness rule lives in BooleanExpression.evaluate (contract above); the nodes test
    `condition.evaluate(context)` directly.  So every condition handed to an if/unless node, an elsif
    block or a ternary expression must be the result of BooleanExpression.parse."""
    obs = []
    for mname, cname, fname, ctors in _COND_SITES:
        fn = load.get_module(mname).classes[cname].methods[fname] if hasattr(load.get_module(mname).classes[cname], "methods") else None
        if fn is None:
            fn = next(n for n in load.get_module(mname).classes[cname].body if isinstance(n, (ast.FunctionDef, ast.AsyncFunctionDef)) and n.name == fname)
        assigned = {}
        for n in ast.walk(fn):
            if isinstance(n, (ast.Assign, ast.AnnAssign)) and n.value is not None:
                for t in (n.targets if isinstance(n, ast.Assign) else [n.target]):
                    if isinstance(t, ast.Name):
                        assigned.setdefault(t.id, []).append(n.value)
        def from_boolean_parse(node):
            if isinstance(node, ast.Call):
                return flow.dotted(node.func) == "BooleanExpression.parse"
            if isinstance(node, ast.Name):
                vals = assigned.get(node.id, [])
                return bool(vals) and all(from_boolean_parse(v) for v in vals)
            return False
        for ctor, kw, pos in ctors:
            sites = [c_ for c_ in flow.calls(fn) if flow.call_name(c_) == ctor]
            args = []
            for c_ in sites:
                a = next((k.value for k in c_.keywords if k.arg == kw), None)
                if a is None and len(c_.args) > pos:
                    a = c_.args[pos]
                args.append(a)
            ok = bool(sites) and all(a is not None and from_boolean_parse(a) for a in args)
            obs.append(flow.ob(f"{cname}.{fname}:{ctor}({kw}=...)-is-a-BooleanExpression", ok, "; ".join(ast.unparse(a) if a is not None else "<missing>" for a in args)[:200] or "no constructor call found",
                               replay_schema="code", replay_extra={"code": REPLAY_COND}))
    return obs


REPLAY_COND = r'''
def run(m):
    import asyncio, decimal
    from liquid import Environment
    class Env(Environment):
        ternary_expressions = True
    env = Env()
    bad = []
    vals = {"zero": 0, "fzero": 0.0, "dzero": decimal.Decimal(0), "estr": "", "elist": [], "edict": {}, "erange": range(0), "one": 1, "f": False, "n": None}
    for name, v in vals.items():
        want = "F" if name in ("f", "n") else "T"
        for src in ("{{ 'T' if x else 'F' }}", "{% if x %}T{% else %}F{% endif %}", "{% unless x %}F{% else %}T{% endunless %}", "{% if f %}{% elsif x %}T{% else %}F{% endif %}"):
            t = env.from_string(src)
            for got in (t.render(x=v, f=False), asyncio.run(t.render_async(x=v, f=False))):
                if got != want:
                    bad.append((src, name, got, want))
    for src in ("{{ 'T' if nosuch else 'F' }}", "{% if nosuch %}T{% else %}F{% endif %}"):
        got = env.from_string(src).render()
        if got != "F":
            bad.append((src, "undefined", got, "F"))
    return {"failing": bool(bad), "violated": bool(bad), "witness": "condition-not-judged-by-liquid-truthiness", "call": repr(bad[:3]), "result": bad[0][2] if bad else "ok", "expected": bad[0][3] if bad else ""}
'''
