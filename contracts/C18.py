"""C18 -- template inheritance resolves blocks to the most-derived definition."""
import ast

import z3

from contracts.common import *  # noqa: F403
from pyvc import flow, load
from pyvc.contract import contract
from pyvc.run import bounded, not_covered, structural
from pyvc.state import *  # noqa: F403
from pyvc.u import *  # noqa: F403

EXT = "liquid.extra.tags.extends_tag"


def mk_block(c, name, required, tag):
    return c.obj(EXT + ":BlockNode", tag, name=name, required=required, token=c.obj("liquid.token:Token", tag + "_tok", kind=const("tag"), value=const("block"), start_index=c.int(tag + "_si"), source=c.str(tag + "_src")),
                 block=c.obj("liquid.ast:BlockNode", tag + "_body"))


def mk_item(c, tag, required, parent=NONE):
    blk = mk_block(c, const("b"), c.bool(tag + "_blk_required"), tag + "_node")
    return c.obj(EXT + ":_BlockStackItem", tag, token=NONE, block=blk, required=required, source_name=c.str(tag + "_source"), parent=parent)


@contract(EXT + ":BlockNode.__init__", prop="C18", name="BlockNode.__init__[never-blank]")
def block_never_blank(c):
    """a block's content can be replaced by a descendant's definition: whatever its own
    default content is, the tag is never 'blank' (blank control-flow blocks are dropped)"""
    body = c.obj("liquid.ast:BlockNode", "default_body", blank=c.bool("default_body_is_blank"))
    tok = c.obj("liquid.token:Token", "tok", kind=const("tag"), value=const("block"), start_index=c.int("si"), source=c.str("src"))
    self = c.obj(EXT + ":BlockNode", "self")
    c.call(tok, c.str("name"), body, self_val=self, required=c.bool("required"))
    c.ensures("block-tag-is-not-blank-whatever-its-default-content", lambda r: z3.Not(r.engine.truth(r.st, r.st.deref(self).fields["blank"])))
    c.raises()
    c.replay("code", code=REPLAY_BLANK)


for _k in (0, 1, 2):
    def _mk(k):
        @contract(EXT + ":_store_blocks", prop="C18", name=f"_store_blocks[stack-depth-{k}]")
        def store(c):
            """templates are processed leaf -> base: each new definition is appended, becomes the
            parent of the previous one, and only an un-overridden required block stays required"""
            items = []
            for i in range(k):
                items.append(mk_item(c, f"derived{i}", c.bool(f"derived{i}_required")))
            for i in range(k - 1):
                c.st.deref(items[i]).fields["parent"] = items[i + 1]
            stack = c.st.alloc(HList(items=list(items)))
            stacks = c.st.alloc(HDict(items={"b": stack}))
            ctx = mk_ctx(c, tag_namespace=c.dict(None, extends=stacks))
            req = c.bool("new_block_required")
            newb = mk_block(c, const("b"), req, "new_block")
            c.call(ctx, c.st.alloc(HList(items=[newb])), c.str("source_name"), )
            def post(r):
                st_items = r.st.deref(stack).items
                if len(st_items) != k + 1 or st_items[:k] != items:
                    return z3.BoolVal(False)
                new = r.st.deref(st_items[-1])
                ok = new.fields["block"] == newb and isinstance(new.fields["parent"], VNone)
                if k >= 1:
                    ok = ok and r.st.deref(items[-1]).fields["parent"] == st_items[-1]
                for i in range(k - 1):
                    ok = ok and r.st.deref(items[i]).fields["parent"] == items[i + 1]
                if k == 0:
                    # only an un-overridden required block is effectively required
                    return z3.And(z3.BoolVal(ok), r.engine.truth(r.st, new.fields["required"]) == req.t)
                # the effective (most-derived) definition keeps its own flag
                top0 = c.st.deref(items[0]).fields["required"]
                return z3.And(z3.BoolVal(ok), r.engine.truth(r.st, r.st.deref(items[0]).fields["required"]) == r.engine.truth(c.st, top0))
            c.ensures("definition-appended-below-more-derived-ones-parent-links-and-required-rule", post)
            c.raises()
            c.replay("code", code=REPLAY)
    _mk(_k)


def _render_contract(depth, required_top, sfx=""):
    @contract(EXT + ":BlockNode.render_to_output" + sfx, prop="C18", name=f"BlockNode.render_to_output{sfx}[stack-{depth},top-required={required_top}]")
    def rto(c):
        items = [mk_item(c, f"def{i}", VBool(z3.BoolVal(required_top if i == 0 else False))) for i in range(depth)]
        for i in range(depth - 1):
            c.st.deref(items[i]).fields["parent"] = items[i + 1]
        stacks = c.st.alloc(HDict(items={"b": c.st.alloc(HList(items=list(items)))} if depth else {}))
        own_required = c.bool("own_required")
        ctx = mk_ctx(c, tag_namespace=c.dict(None, extends=stacks, cycles=c.dict("cyc"), ifchanged=c.str("ifc"), stopindex=c.dict("si"), macros=c.dict("mac")))
        self = mk_block(c, const("b"), own_required, "base_block")
        rendered = []
        def block_render(eng, st, args, kwargs):
            st.log.append(("render-block", args[0], args[1]))
            return [(st, VInt(z3.IntVal(0)))]
        c.summary("liquid.ast:BlockNode.render" + sfx, block_render)
        c.summary("liquid.ast:Node.render" + sfx, block_render)
        buf = c.obj("io:StringIO", "buffer", __text__=c.str("out"))
        c.call(ctx, buf, self_val=self)
        def post(r):
            rb = [e for e in r.st.log if e[0] == "render-block"]
            if len(rb) != 1:
                return z3.BoolVal(False)
            _t, body, rctx = rb[0]
            if depth == 0:
                ok = body == r.st.deref(self).fields["block"] and rctx == ctx
                return z3.And(z3.BoolVal(ok), z3.Not(own_required.t))
            top = r.st.deref(items[0])
            want_body = r.st.deref(top.fields["block"]).fields["block"]
            f = r.st.deref(rctx).fields
            shares = r.st.deref(f["tag_namespace"]).items.get("extends") == stacks
            # block.super: the drop handed to the block points at the next definition up
            g = r.st.deref(f["globals"])
            ns = r.st.deref(r.st.deref(g.fields["_maps"]).items[0])
            drop = r.st.deref(ns.items["block"])
            sup_ok = drop.fields["parent"] == top.fields["parent"]
            return z3.BoolVal(body == want_body and rctx != ctx and shares and sup_ok)
        c.ensures("renders-the-most-derived-definition-with-super-pointing-one-level-up", post)
        c.raises("RequiredBlockError", "ContextDepthError")
        c.ensures_exc("required-error-iff-the-effective-definition-is-required", lambda r: z3.Or(z3.BoolVal(r.exc.cls == "ContextDepthError"), (own_required.t if depth == 0 else z3.BoolVal(required_top))))
        if depth and required_top:
            c.ensures("required-block-never-renders", lambda r: z3.BoolVal(False))
        c.replay("code", code=REPLAY)


for _d, _rq in ((0, False), (1, False), (2, False), (3, False), (1, True), (2, True)):
    _render_contract(_d, _rq)
    _render_contract(_d, _rq, "_async")


@structural("C18", "chain-shape")
def chain_shape():
    obs = []
    mod = load.get_module(EXT)
    # ExtendsNode: renders the base then raises StopRender (nothing after the tag is rendered)
    cn = mod.classes["ExtendsNode"]
    for fname in ("render_to_output", "render_to_output_async"):
        fn = load._last_def(cn.body, fname)
        last = fn.body[-1]
        ok = isinstance(last, ast.Raise) and flow.dotted(last.exc) == "StopRender"
        obs.append(flow.ob(f"ExtendsNode.{fname}:ends-with-StopRender", ok, flow.dotted(last)[:60], replay_schema="code", replay_extra={"code": REPLAY}))
    rwc = load.find_method("liquid.template", "BoundTemplate", "render_with_context")[2]
    handlers = [h for t in ast.walk(rwc) if isinstance(t, ast.Try) for h in t.handlers if h.type is not None and flow.dotted(h.type) == "StopRender"]
    obs.append(flow.ob("render_with_context:StopRender-breaks-the-node-loop", bool(handlers) and all(isinstance(h.body[-1], ast.Break) for h in handlers), "", replay_schema="code", replay_extra={"code": REPLAY}))
    # circular extends / duplicate blocks / too many extends / endblock name are rejected with TemplateInheritanceError
    for fname, needle in (("_build_block_stacks", "in seen"), ("_build_block_stacks_async", "in seen"), ("_stack_blocks", "in seen_block_names"), ("_stack_blocks", "len(extends) > 1")):
        fn = mod.funcs[fname]
        ok = False
        for iff in [n for n in ast.walk(fn) if isinstance(n, ast.If)]:
            if needle in flow.dotted(iff.test) and isinstance(iff.body[-1], ast.Raise) and "TemplateInheritanceError" in flow.dotted(iff.body[-1].exc):
                ok = True
        obs.append(flow.ob(f"{fname}:rejects[{needle}]", ok, "", replay_schema="code", replay_extra={"code": REPLAY}))
    bt = load.find_method(EXT, "BlockTag", "parse")[2]
    ok = any("end_block_name != block_name" in flow.dotted(i.test) and "TemplateInheritanceError" in flow.dotted(i.body[-1]) for i in ast.walk(bt) if isinstance(i, ast.If))
    obs.append(flow.ob("BlockTag.parse:rejects-mismatched-endblock-name", ok, "", replay_schema="code", replay_extra={"code": REPLAY}))
    # `seen` grows on every step of the chain walk (termination measure; also C09)
    for fname in ("_build_block_stacks", "_build_block_stacks_async"):
        fn = mod.funcs[fname]
        inner = [n for n in ast.walk(fn) if isinstance(n, (ast.FunctionDef, ast.AsyncFunctionDef)) and n is not fn][0]
        adds = [c for c in flow.calls(inner) if flow.dotted(c.func) == "seen.add"]
        obs.append(flow.ob(f"{fname}:every-step-adds-the-parent-name-to-seen", len(adds) == 1, "", replay_schema="code", replay_extra={"code": REPLAY}))
    return obs


# ---- block.super renders the next definition up the chain (and only that one), with a `block`
# ---- drop of its own whose super is the definition after that

def _block_super(has_parent, autoescape):
    @contract(EXT + ":BlockDrop.__getitem__", prop="C18", name=f"BlockDrop['super'][{'with' if has_parent else 'without'} a parent definition, autoescape={autoescape}]")
    def bs(c):
        env = mk_env(c, undefined=VClass("liquid.undefined", "Undefined"))
        ctx = mk_ctx(c, env, autoescape=VBool(z3.BoolVal(autoescape)))
        c.requires(c.st.deref(env).fields["context_depth_limit"].t >= 8, "context depth limit not reached")
        grand = mk_item(c, "grandparent_definition", c.bool("gp_required"))
        parent = mk_item(c, "parent_definition", c.bool("p_required"), grand) if has_parent else NONE
        outer_buf = c.obj("io:StringIO", "buffer", __text__=c.str("out"))
        self = c.obj(EXT + ":BlockDrop", "block_drop", token=NONE, buffer=outer_buf, context=ctx, name=c.str("block_name"), parent=parent)
        inner_buf = c.obj("io:StringIO", "super_buffer", __text__=VStr(z3.StringVal("")))
        rendered = c.str("parent_output")
        scope = c.st.deref(ctx).fields["scope"]
        maps0 = list(c.st.deref(c.st.deref(scope).fields["_maps"]).items)
        c.summary(CTX + ".get_buffer", lambda eng, st, a, k: [(st, inner_buf)] if a[1] == outer_buf else [eng.raised(st, "AssertionError", "wrong parent buffer")])

        def render(eng, st, a, k):
            maps = st.deref(st.deref(scope).fields["_maps"]).items
            st.log.append(("rendered", a[0], a[1], a[2], len(maps), maps[0]))
            st.deref(a[2]).fields["__text__"] = rendered
            return [(st, VInt(z3.Int("n_chars")))]
        c.summary("liquid.ast:BlockNode.render", render)
        c.summary("liquid.ast:Node.render", render)
        c.summary("builtin:markupsafe.Markup", lambda eng, st, a, k: (st.log.append(("Markup", box(a[0]))), [(st, a[0])])[1])
        c.call(const("super"), self_val=self)

        def post(r):
            rs = [e for e in r.st.log if e[0] == "rendered"]
            if not has_parent:
                return z3.BoolVal(not rs and isinstance(r.value, VRef) and r.st.deref(r.value).cls[1] == "Undefined")
            pb = r.st.deref(r.st.deref(parent).fields["block"]).fields["block"]
            if len(rs) != 1 or rs[0][1] != pb or rs[0][2] != ctx or rs[0][3] != inner_buf or rs[0][4] != len(maps0) + 1:
                return z3.BoolVal(False)
            ns = r.st.deref(rs[0][5])
            drop = ns.items.get("block") if isinstance(ns, HDict) else None
            if not isinstance(drop, VRef):
                return z3.BoolVal(False)
            df = r.st.deref(drop).fields
            marks = [e for e in r.st.log if e[0] == "Markup"]
            ok = df["parent"] == grand and df["context"] == ctx and df["buffer"] == inner_buf and (len(marks) == 1) == autoescape
            restored = r.st.deref(r.st.deref(scope).fields["_maps"]).items == maps0
            return z3.And(z3.BoolVal(bool(ok and restored)), box(r.value) == U.str(rendered.t), box(df["name"]) == box(r.st.deref(parent).fields["source_name"]))
        c.ensures("super-renders-exactly-the-next-definition-up-the-chain-with-its-own-super(and-returns-its-text)", post)
        c.raises()
        c.replay("code", code=REPLAY)


for _hp in (True, False):
    for _ae in (True, False):
        _block_super(_hp, _ae)


@contract(EXT + ":BlockDrop.__getitem__", prop="C18", name="BlockDrop[other key]")
def block_other_key(c):
    k = c.str("key")
    c.requires(k.t != z3.StringVal("super"))
    self = c.obj(EXT + ":BlockDrop", "block_drop", token=NONE, buffer=NONE, context=NONE, name=c.str("block_name"), parent=NONE)
    c.call(k, self_val=self)
    c.raises("KeyError")
    c.ensures("only-super-is-defined", lambda r: z3.BoolVal(False))


not_covered("C18", "that _find_inheritance_nodes reaches blocks nested in every tag (children() completeness is C19's obligation)", "stacks deeper than 3 definitions (selection reads index 0 only; _store_blocks is uniform in the depth)",
            "chained block.super.super (not supported by the library: super of super is rendered through the drop of the parent render)")

bounded("C18", "bounded/C18.py")

REPLAY_BLANK = r'''
def run(m):
    from liquid import DictLoader, Environment
    env = Environment(extra=True, loader=DictLoader({
        "base": "{% block outer %}{% block inner %}{% endblock %}{% endblock %}",
        "child": "{% extends 'base' %}{% block inner %}INNER{% endblock %}"}))
    got = env.get_template("child").render()
    return {"violated": got != "INNER", "observed": got}
'''


REPLAY = r'''
def run(m):
    from bounded.C18 import run as brun
    r = brun("quick", 0)
    v = r["violations"]
    return {"failing": bool(v), "witness": v[0]["witness"] if v else "inheritance", "call": v[0]["source"] if v else "chain sweep", "result": v[0]["got"] if v else "ok"}
'''


# ---- a block body renders in copy(block_scope=True): "variables and loops inside blocks" --
# ---- the block sees its own namespace (the `block` drop) first and then the LIVE scope of the
# ---- template being rendered, including namespaces pushed by enclosing for/with/include tags

REPLAY_BLOCK_SCOPE = r'''
def run(m):
    import asyncio
    from liquid import Environment, DictLoader
    env = Environment(extra=True, loader=DictLoader({
        "base": "{% assign a = 'A' %}{% for i in (1..2) %}[{% block item %}{{ i }}{{ a }}{{ g }}{{ forloop.index }}{% endblock %}]{% endfor %}",
        "child": "{% extends 'base' %}",
        "child2": "{% extends 'base' %}{% block item %}<{{ i }}{{ block.super }}>{% endblock %}"}))
    bad = []
    for name, want in (("child", "[1AG1][2AG2]"), ("child2", "[<11AG1>][<22AG2>]")):
        t = env.get_template(name)
        for got in (t.render(g="G"), asyncio.run(t.render_async(g="G"))):
            if got != want:
                bad.append((name, got, want))
    return {"violated": bool(bad), "observed": bad[:3], "witness": "block-does-not-see-the-enclosing-scope"}
'''


@contract(CTX + ".copy", prop="C18", name="copy[block scope: the block's namespace, then the live scope of the enclosing template]")
def copy_block_scope_chain(c):
    env = mk_env(c)
    ctx = mk_ctx(c, env)
    f0 = c.st.deref(ctx).fields
    # namespaces pushed by enclosing tags (a for loop, an include's arguments)
    ns1, ns2 = c.dict("loop_namespace"), c.dict("include_arguments")
    dq = c.st.deref(c.st.deref(f0["scope"]).fields["_maps"])
    dq.items = [ns2, ns1] + dq.items
    live = list(dq.items)
    namespace = c.dict("block_namespace")
    c.call(namespace, self_val=ctx, carry_loop_iterations=const(True), block_scope=const(True))

    def post(r):
        f = r.st.deref(r.value).fields
        g = r.st.deref(f["globals"])
        if not (isinstance(g, HObj) and g.cls[1] == "ReadOnlyChainMap"):
            return z3.BoolVal(False)
        maps = r.st.deref(g.fields["_maps"]).items
        # [block namespace, the caller's scope object itself (live: later pushes are seen too)]
        ok = (len(maps) == 2 and maps[0] == namespace and maps[1] == f0["scope"]) or maps == [namespace, *live]   # the scope object, or its maps in order
        still = r.st.deref(r.st.deref(f0["scope"]).fields["_maps"]).items == live
        return z3.BoolVal(bool(ok and still and f["parent_context"] == ctx))
    c.ensures("the-blocks-globals-are-its-namespace-chained-to-the-callers-live-scope", post)
    c.raises("ContextDepthError")
    c.replay("code", code=REPLAY_BLOCK_SCOPE)


# ---- every block and extends node of a template is found, wherever it is nested: the walk
# ---- follows children() of EVERY node (blank or not: capture/macro bodies are blank by
# ---- construction but may hold blocks) -- otherwise block.super and the duplicate check miss it

EXT = "liquid.extra.tags.extends_tag"

REPLAY_FIND = r'''
def run(m):
    import asyncio
    from liquid import Environment, DictLoader
    from liquid.exceptions import LiquidError
    env = Environment(extra=True, loader=DictLoader({
        "base": "{% capture c %}{% block b %}base{% endblock %}{% endcapture %}[{{ c }}]",
        "child": "{% extends 'base' %}{% block b %}child+{{ block.super }}{% endblock %}",
        "dup": "{% capture c %}{% block b %}1{% endblock %}{% endcapture %}{% block b %}2{% endblock %}"}))
    out = []
    for a in (False, True):
        t = env.get_template("child")
        out.append(asyncio.run(t.render_async()) if a else t.render())
        try:
            d = env.get_template("dup")
            out.append(asyncio.run(d.render_async()) if a else d.render())
        except LiquidError as e:
            out.append(type(e).__name__)
    return {"violated": out != ["[child+base]", "TemplateInheritanceError"] * 2, "observed": out, "witness": "block-nested-in-a-blank-node-not-found"}
'''


@contract(EXT + ":_find_inheritance_nodes", prop="C18", name="_find_inheritance_nodes[blocks and extends nodes nested under arbitrary (also blank) nodes are all found, in document order]")
def find_nodes(c):
    env = mk_env(c)
    ctx = mk_ctx(c, env)
    kids = {}

    def node(cls, name, children, **f):
        o = c.obj(cls, name, token=NONE, blank=c.bool(name + "_blank"), **f)
        kids[o.addr] = children
        return o
    b_inner = node(EXT + ":BlockNode", "inner_block", [])
    b_deep = node(EXT + ":BlockNode", "block_under_two_nodes", [b_inner])
    ext = node(EXT + ":ExtendsNode", "extends", [])
    wrap2 = node("liquid.ast:Node", "capture_like", [b_deep])
    wrap1 = node("liquid.ast:Node", "if_like", [wrap2, ext])
    b_top = node(EXT + ":BlockNode", "top_block", [])
    plain = node("liquid.ast:Node", "leaf", [])
    tmpl = c.obj(TEMPLATE, "template", env=env, nodes=c.st.alloc(HList(items=[plain, wrap1, b_top])))

    def children(eng, st, a, k):
        st.log.append(("children", a[0]))
        return [(st, st.alloc(HList(items=list(kids[a[0].addr]))))]
    for cls in ("liquid.ast:Node.children", EXT + ":BlockNode.children", EXT + ":ExtendsNode.children"):
        c.summary(cls, children)
    c.call(tmpl, ctx)

    def post(r):
        if not isinstance(r.value, VTuple) or len(r.value.items) != 2:
            return z3.BoolVal(False)
        exts = r.engine.concrete_items(r.st, r.value.items[0])
        blocks = r.engine.concrete_items(r.st, r.value.items[1])
        return z3.BoolVal(exts == [ext] and blocks == [b_deep, b_inner, b_top])
    c.ensures("all-three-blocks-and-the-extends-node-are-returned-in-document-order", post)
    c.raises()
    c.assume_note("children() of each node is an arbitrary list here (the nodes' own children() methods are C19's obligations); blank flags are arbitrary")
    c.replay("code", code=REPLAY_FIND)


# ---- the extends tag (both twins): the base template is rendered in this context with the block
# ---- stacks built for THIS chain, and the stacks are gone afterwards, so the next chain resolved
# ---- in the same context (a second include of an extending template) starts from nothing

REPLAY_TWO_CHAINS = r'''
def run(m):
    import asyncio
    from liquid import Environment, DictLoader
    env = Environment(extra=True, loader=DictLoader({
        "base": "<{% block b %}base{% endblock %}>", "news": "{% extends 'base' %}{% block b %}news{% endblock %}",
        "sport": "{% extends 'base' %}{% block b %}sport{% endblock %}", "plain": "{% extends 'base' %}"}))
    t = env.from_string("{% include 'news' %}|{% include 'sport' %}|{% include 'plain' %}")
    out = [t.render(), asyncio.run(t.render_async())]
    return {"violated": out != ["<news>|<sport>|<base>"] * 2, "observed": out, "witness": "block-stacks-survive-the-chain"}
'''

def extends_node_contract(prop, sfx, failing_callees=False):
    """failing_callees: the chain walk and the base template's render may also raise any Liquid error
    (C02: nothing but Liquid errors and the StopRender interrupt leaves the tag)"""
    def _mkext(sfx):
        label = "renders the base of this chain, then leaves no block stacks behind" if not failing_callees else "only Liquid errors and StopRender escape, whatever the chain walk and the base template raise"
        @contract(EXT + ":ExtendsNode.render_to_output" + sfx, prop=prop, name=f"ExtendsNode.render_to_output{sfx}[{label}]")
        def en(c):
            env = mk_env(c)
            ctx = mk_ctx(c, env)
            base = c.obj(TEMPLATE, "base_template", env=env, name=c.str("base_name"))
            self = c.obj(EXT + ":ExtendsNode", "extends", token=NONE, name=c.str("parent_name"))

            def failures(st, classes):
                return [(st.fork(), Raised(VExc(cls, (const(cls),)))) for cls in classes] if failing_callees else []

            def build(eng, st, a, k):
                st.log.append(("build", a[0], a[1]))
                return [(st.fork(), base)] + failures(st, ("TemplateInheritanceError", "TemplateNotFoundError", "LiquidSyntaxError", "RequiredBlockError"))
            c.summary(EXT + ":_build_block_stacks" + sfx, build)

            def render(eng, st, a, k):
                st.log.append(("render", a[0], a[1]))
                return [(st.fork(), VInt(z3.Int("chars")))] + failures(st, ("LiquidTypeError", "UndefinedError", "RequiredBlockError", "OutputStreamLimitError"))
            c.summary(TEMPLATE + ".render_with_context" + sfx, render)
            c.call(ctx, c.obj("io:StringIO", "buffer", __text__=c.str("out")), self_val=self)
            if failing_callees:
                c.raises("LiquidError", "LiquidInterrupt", "StopRender")   # StopRender is caught by render_with_context (structural: chain-shape)
                c.replay("code", code=REPLAY_TWO_CHAINS)
                return
            c.raises("StopRender")
            c.ensures("never-returns-normally(the-rest-of-a-child-template-is-not-rendered)", lambda r: z3.BoolVal(False))

            def after(r):
                log = [e for e in r.st.log if e[0] in ("build", "render")]
                ok_calls = [e[0] for e in log] == ["build", "render"] and log[0][1] == ctx and log[1][1] == base and log[1][2] == ctx
                ns = r.st.deref(r.st.deref(r.st.deref(ctx).fields["tag_namespace"]).items["extends"])
                empty = isinstance(ns, HDict) and not ns.items and ns.present is None
                return z3.BoolVal(bool(ok_calls and empty))
            c.ensures_exc("base-of-this-chain-rendered-in-this-context-and-block-stacks-cleared", after)
            c.assume_note("_build_block_stacks and render_with_context are callees (their own obligations: extends-cycle guard C09, block resolution above)")
            c.replay("code", code=REPLAY_TWO_CHAINS)
    _mkext(sfx)


for _sfx in ("", "_async"):
    extends_node_contract("C18", _sfx)


# ---- clauses carried by other properties' checks, instantiated for C18 as well:
# ---- "circular extends raises TemplateInheritanceError" and nothing else does: the name tested
# ---- against `seen` is the name recorded is the name loaded (C09's structural obligation) ...
from contracts.C09 import extends_cycle_guard as _c09_cycle_guard  # noqa: E402

structural("C18", "extends-cycle-guard")(_c09_cycle_guard)

# ---- ... and block stacks belong to ONE chain: an isolated copy (render / call) shares no tag
# ---- namespace with its caller, so a partial that has blocks of its own resolves them in its own
# ---- chain (C15's isolation contract on copy(), which checks that nothing of the caller's
# ---- tag namespace is reachable from the copy)
from contracts.C15 import _copy_isolated as _c15_copy_isolated  # noqa: E402

for _origin in ("root", "partial-in-block"):
    contract(CTX + ".copy", prop="C18", name=f"copy[isolated copy shares no block stacks with its caller, caller={_origin}]")(lambda c, o=_origin: _c15_copy_isolated(c, o))
