"""C15 -- rendered partials and macros are isolated from their caller."""
import ast

import z3

from contracts.common import *  # noqa: F403
from pyvc import flow, load
from pyvc.contract import contract
from pyvc.run import bounded, not_covered, structural
from pyvc.state import *  # noqa: F403
from pyvc.u import *  # noqa: F403


def reachable(st, root, skip_fields=("parent_context", "env", "template")):
    seen = set()
    stack = [root]
    while stack:
        v = stack.pop()
        if not isinstance(v, VRef) or v.addr in seen:
            continue
        seen.add(v.addr)
        h = st.deref(v)
        if isinstance(h, HObj):
            stack.extend(val for k, val in h.fields.items() if k not in skip_fields)
        elif isinstance(h, HDict):
            stack.extend(h.items.values())
        elif isinstance(h, HDeque):
            stack.extend(h.items)
        elif isinstance(h, HList):
            stack.extend((h.items or []) + list(h.tail))
    return seen


def _copy_isolated(c, origin, replay=None):
    """`origin`: where the calling context came from -- the top-level render ("root"), an
    isolated copy (the caller is itself a partial/macro with arguments: "partial") or a
    block-scoped copy (the caller is a {% block %} body that sees its parent's scope: "block").
    GLOBAL DATA is the root context's globals in every case (statement: 'sees only its explicit
    arguments, its bound variable and global data')."""
    env = mk_env(c)
    global_data = c.dict("global_data")
    if origin == "root":
        ctx = mk_ctx(c, env, globals=global_data)
        outer = []
    else:
        root = mk_ctx(c, env, globals=global_data)
        rf = c.st.deref(root).fields
        outer_ns = c.dict("enclosing_arguments")
        chain = mk_chain(c, [outer_ns, global_data] if origin.startswith("partial") else [outer_ns, rf["scope"]])
        outer = [outer_ns.addr, rf["locals"].addr, rf["scope"].addr, rf["counters"].addr, rf["tag_namespace"].addr, rf["loops"].addr, chain.addr]
        parent = root
        if origin == "partial-in-partial":
            # root -> isolated copy (arguments of an enclosing render tag) -> isolated copy -> this copy:
            # the enclosing tag's arguments must not leak into the innermost partial
            mid_ns = c.dict("enclosing_enclosing_arguments")
            mid_chain = mk_chain(c, [mid_ns, global_data])
            parent = mk_ctx(c, env, globals=mid_chain, parent_context=root, locals=c.dict("locals_mid"), counters=c.dict("counters_mid"), loops=c.list("loops_mid"))
            mf = c.st.deref(parent).fields
            outer += [mid_ns.addr, mid_chain.addr, mf["locals"].addr, mf["scope"].addr, mf["counters"].addr, mf["tag_namespace"].addr, mf["loops"].addr]
        if origin == "partial-in-block":
            # root -> block-scoped copy -> isolated copy (a partial rendered from a block body)
            mid_ns = c.dict("block_namespace")
            mid_chain = mk_chain(c, [mid_ns, rf["scope"]])
            parent = mk_ctx(c, env, globals=mid_chain, parent_context=root, locals=c.dict("locals_mid"), counters=c.dict("counters_mid"), loops=c.list("loops_mid"))
            mf = c.st.deref(parent).fields
            outer += [mid_ns.addr, mid_chain.addr, mf["locals"].addr, mf["scope"].addr, mf["counters"].addr, mf["tag_namespace"].addr, mf["loops"].addr]
        ctx = mk_ctx(c, env, globals=chain, parent_context=parent, locals=c.dict("locals2"), counters=c.dict("counters2"), loops=c.list("loops2"))
    # the caller has open block namespaces (for loops, with blocks) holding local names
    ns1, ns2 = c.dict("caller_block_ns1"), c.dict("caller_block_ns2")
    f0 = c.st.deref(ctx).fields
    dq = c.st.deref(c.st.deref(f0["scope"]).fields["_maps"])
    dq.items = [ns2, ns1] + dq.items
    namespace = c.dict("partial_args")
    disabled = c.list("disabled_tags_arg")
    c.assume_note("the walk along parent_context is executed on concrete ancestor chains of depth 0, 1 and 2 (root / partial / block / partial-in-block); longer chains repeat the same step")
    c.call(namespace, self_val=ctx, disabled_tags=disabled, carry_loop_iterations=c.bool("carry"), block_scope=const(False))
    forbidden = {f0["locals"].addr, f0["counters"].addr, f0["tag_namespace"].addr, ns1.addr, ns2.addr, f0["scope"].addr, f0["loops"].addr} | set(outer)
    # ... nor any of the per-tag namespaces inside it (cycle positions, stop indexes, the block stacks of
    # the caller's inheritance chain, its macros)
    forbidden |= {v.addr for v in c.st.deref(f0["tag_namespace"]).items.values() if isinstance(v, VRef)}
    def post(r):
        new = r.value
        f = r.st.deref(new).fields
        reach = reachable(r.st, new)
        loc = r.st.deref(f["locals"])
        fresh_locals = isinstance(loc, HDict) and not loc.items and loc.present is None and f["locals"].addr not in forbidden
        maps = r.st.deref(r.st.deref(f["scope"]).fields["_maps"]).items
        g = r.st.deref(f["globals"])
        # exactly [its arguments (incl. the bound variable, pushed into them later), global data]
        chain_ok = isinstance(g, HObj) and g.cls[1] == "ReadOnlyChainMap" and r.st.deref(g.fields["_maps"]).items == [namespace, global_data]
        order_ok = len(maps) == 4 and maps[0] == f["locals"] and maps[1] == f["globals"] and maps[3] == f["counters"]
        lp = r.st.deref(f["loops"])
        no_loops = isinstance(lp, HList) and lp.items == [] and not lp.tail   # no forloop/parentloop of the caller
        return z3.BoolVal(fresh_locals and no_loops and chain_ok and order_ok and not (reach & forbidden) and (f["disabled_tags"] == disabled or (isinstance(r.st.deref(f["disabled_tags"]), HList) and r.st.deref(f["disabled_tags"]).items == [])))
    c.ensures("partial-sees-exactly-its-arguments-and-global-data-and-shares-no-mutable-caller-state", post)
    def caller_untouched(r):
        f = r.st.deref(ctx).fields
        return z3.BoolVal(r.st.deref(r.st.deref(f["scope"]).fields["_maps"]).items == dq.items and f["locals"] == f0["locals"])
    c.ensures("caller-context-untouched", caller_untouched)
    c.raises("ContextDepthError")
    c.replay("code", code=replay() if replay else (REPLAY_NESTED if origin != "root" else REPLAY))


for _origin in ("root", "partial", "block", "partial-in-block", "partial-in-partial"):
    contract(CTX + ".copy", prop="C15", name=f"copy[isolated: block_scope=False, caller={_origin}]")(lambda c, o=_origin: _copy_isolated(c, o))


@contract(CTX + ".copy", prop="C15", name="copy[block scope keeps the disabled tags]")
def copy_block_keeps_disabled(c):
    """Statement: a rendered template cannot use the include tag -- also not from inside a
    {% block %} of a rendered template that uses extends.  A block body is rendered in
    copy(block_scope=True): the copy must keep every tag that is disabled in its parent."""
    env = mk_env(c)
    d0 = c.str("disabled0")
    ctx = mk_ctx(c, env, disabled_tags=c.st.alloc(HList(items=[d0])))
    extra = c.bool("caller_passes_more")
    more = c.st.alloc(HList(items=[c.str("disabled1")]))
    namespace = c.dict("block_namespace")

    def entry(eng, cc, func):
        outs = []
        for dt in (NONE, more):
            outs += eng.run(func, cc.st.fork(), [namespace], dict(disabled_tags=dt, carry_loop_iterations=const(True), block_scope=const(True)), self_val=ctx)
        return outs
    c.entry = entry

    def post(r):
        dl = r.st.deref(r.st.deref(r.value).fields["disabled_tags"])
        if not isinstance(dl, HList) or dl.items is None:
            return z3.BoolVal(False)
        return z3.Or(*[box(x) == U.str(d0.t) for x in dl.items]) if dl.items else z3.BoolVal(False)
    c.ensures("tags-disabled-for-the-template-stay-disabled-inside-its-blocks", post)
    c.raises("ContextDepthError")
    c.replay("code", code=REPLAY_BLOCK_INCLUDE)


REPLAY_BLOCK_INCLUDE = r'''
def run(m):
    import asyncio
    from liquid import Environment, DictLoader
    from liquid.exceptions import DisabledTagError
    env = Environment(extra=True, loader=DictLoader({
        "base": "BASE[{% block content %}default{% endblock %}]",
        "p": "{% extends 'base' %}{% block content %}{% include 'inc' %}{% endblock %}",
        "inc": "INC"}))
    got = []
    for a in (False, True):
        t = env.from_string("{% render 'p' %}")
        try:
            got.append(asyncio.run(t.render_async()) if a else t.render())
        except DisabledTagError:
            got.append("DisabledTagError")
    return {"violated": got != ["DisabledTagError"] * 2, "observed": got, "witness": "include-inside-block-of-rendered-partial"}
'''


def _node_render_disabled(c, sfx):
    env = mk_env(c)
    kind, value = c.str("token_kind"), c.str("token_value")
    d0 = c.str("disabled0")
    ctx = mk_ctx(c, env, disabled_tags=c.st.alloc(HList(items=[d0])))
    tok = c.obj("liquid.token:Token", "token", kind=kind, value=value, start_index=c.int("si"), source=c.str("src"))
    node = c.obj("liquid.ast:Node", "node", token=tok)
    c.summary("liquid.ast:Node.render_to_output" + sfx, lambda eng, st, a, k: [(st, VInt(z3.IntVal(0)))])
    c.call(ctx, c.obj("io:StringIO", "buffer", __text__=c.str("out")), self_val=node)
    is_disabled = z3.And(kind.t == z3.StringVal("tag"), value.t == d0.t)
    c.ensures("renders-only-tags-that-are-not-disabled", lambda r: z3.Not(is_disabled))
    c.raises("DisabledTagError")
    c.ensures_exc("disabled-tag-error-iff-the-tag-is-disabled", lambda r: is_disabled)
    c.replay("code", code=REPLAY)


for _sfx in ("", "_async"):
    contract("liquid.ast:Node.render" + _sfx, prop="C15")(lambda c, s=_sfx: _node_render_disabled(c, s))


@structural("C15", "call-sites")
def call_sites():
    """render: the partial's context comes from context.copy(ReadOnlyChainMap(args),
    disabled_tags containing 'include', without block_scope) and is rendered with
    block_scope=True; call: the macro body is rendered in context.copy(namespace) without
    block_scope; neither writes to the caller's context after the copy."""
    obs = []
    for m, cls, must_disable in (("liquid.builtin.tags.render_tag", "RenderNode", True), ("liquid.extra.tags.macro_tag", "CallNode", False)):
        mod = load.get_module(m)
        cn = mod.classes[cls]
        for fname in ("render_to_output", "render_to_output_async"):
            fn = load._last_def(cn.body, fname)
            copies = [cl for cl in flow.calls(fn) if flow.call_name(cl) == "copy" and isinstance(cl.func, ast.Attribute) and flow.dotted(cl.func.value) == "context"]
            ok = len(copies) == 1
            detail = ""
            if ok:
                cp = copies[0]
                bs = flow.kwarg(cp, "block_scope")
                ok = bs is None or (isinstance(bs, ast.Constant) and bs.value is False)
                detail = flow.dotted(cp)[:160]
                if must_disable:
                    dt = flow.kwarg(cp, "disabled_tags")
                    ok = ok and dt is not None and "TAG_INCLUDE" in flow.dotted(dt)
            obs.append(flow.ob(f"{cls}.{fname}:partial-context-is-an-isolated-copy", ok, detail, replay_schema="code", replay_extra={"code": REPLAY}))
            # the context handed to the partial's render is the copy, never `context`
            rcalls = [cl for cl in flow.calls(fn) if flow.call_name(cl) in ("render_with_context", "render_with_context_async", "render", "render_async") and isinstance(cl.func, ast.Attribute) and flow.dotted(cl.func.value) in ("template", "macro.block")]
            targets = {flow.dotted(cl.args[0]) for cl in rcalls if cl.args}
            obs.append(flow.ob(f"{cls}.{fname}:renders-with-the-copy", bool(rcalls) and "context" not in targets, str(sorted(targets)), replay_schema="code", replay_extra={"code": REPLAY}))
            if must_disable:
                bs_ok = all(isinstance(flow.kwarg(cl, "block_scope"), ast.Constant) and flow.kwarg(cl, "block_scope").value is True for cl in rcalls)
                obs.append(flow.ob(f"{cls}.{fname}:interrupts-do-not-leak(block_scope=True)", bs_ok, "", replay_schema="code", replay_extra={"code": REPLAY}))
            # reads of the caller's context are confined to: evaluating the call site's argument
            # expressions, finding the template/macro, building Undefined values, and copy()
            pm = flow.parents(fn)
            reads = []
            for n in ast.walk(fn):
                if not (isinstance(n, ast.Name) and n.id == "context"):
                    continue
                p = pm[n]
                if isinstance(p, ast.Attribute):
                    chain = flow.dotted(p)
                    while isinstance(pm.get(p), ast.Attribute):
                        p = pm[p]
                        chain = flow.dotted(p)
                    reads.append(chain)
                elif isinstance(p, ast.Call) and isinstance(p.func, ast.Attribute) and p.func.attr in ("evaluate", "evaluate_async") and n in p.args:
                    reads.append("<argument-expression>.evaluate(context)")
                elif isinstance(p, ast.keyword) and p.arg == "context":
                    reads.append("context=context")
                else:
                    reads.append("?" + flow.dotted(p)[:40])
            allowed = {"<argument-expression>.evaluate(context)", "context=context", "context.copy", "context.env.undefined", "context.env.get_template", "context.env.get_template_async",
                       "context.template.full_name", "context.tag_namespace"} | ({"context.resolve"} if must_disable else set())
            extra = sorted(set(reads) - allowed)
            obs.append(flow.ob(f"{cls}.{fname}:reads-the-callers-context-only-through-argument-expressions", not extra, str(extra), replay_schema="code", replay_extra={"code": REPLAY_MISSING_ARG}))
            if must_disable:
                # context.resolve is used once, for the name of an inline snippet, never for a binding
                res = [flow.dotted(cl)[:80] for cl in flow.calls(fn) if flow.dotted(cl.func) == "context.resolve"]
                obs.append(flow.ob(f"{cls}.{fname}:context.resolve-only-looks-up-the-template-name", all(r.startswith("context.resolve(self.name,") for r in res) and len(res) <= 1, str(res)))
            writes = [flow.dotted(cl)[:60] for cl in flow.calls(fn) if isinstance(cl.func, ast.Attribute) and flow.dotted(cl.func.value) == "context" and cl.func.attr in ("assign", "extend", "loop", "increment", "decrement", "cycle", "ifchanged", "stopindex")]
            stores = [flow.dotted(n)[:60] for n in ast.walk(fn) if isinstance(n, (ast.Attribute, ast.Subscript)) and isinstance(n.ctx, ast.Store) and flow.dotted(n).startswith("context.")]
            obs.append(flow.ob(f"{cls}.{fname}:does-not-write-the-callers-context", not writes and not stores, str(writes + stores), replay_schema="code", replay_extra={"code": REPLAY}))
    # parent_context is a back link that rendering never follows
    uses = []
    for m in load.all_modules():
        mod = load.get_module(m)
        for n in ast.walk(mod.tree):
            if isinstance(n, ast.Attribute) and n.attr == "parent_context" and isinstance(n.ctx, ast.Load):
                uses.append(f"{m}@{n.lineno}")
    # ... except by copy(), which walks it to find the root context's global data -- directly or in
    # a private helper of RenderContext that nothing but copy() (or such a helper) calls
    ctx_cls = load.get_module("liquid.context").classes["RenderContext"]
    methods = {f.name: f for f in ctx_cls.body if isinstance(f, (ast.FunctionDef, ast.AsyncFunctionDef))}
    allowed_fns = {"copy"}
    changed = True
    while changed:
        changed = False
        for name, f in methods.items():
            if name in allowed_fns or not name.startswith("_") or name.startswith("__"):
                continue
            callers = set()
            for m in load.all_modules():
                mod = load.get_module(m)
                pm = flow.parents(mod.tree)
                for cl in flow.calls(mod.tree):
                    if isinstance(cl.func, ast.Attribute) and cl.func.attr == name:
                        enc = flow.enclosing(pm, cl, (ast.FunctionDef, ast.AsyncFunctionDef))
                        callers.add((m, enc[0].name if enc else "?"))
            if callers and all(m == "liquid.context" and fn in allowed_fns for m, fn in callers):
                allowed_fns.add(name)
                changed = True
    allowed = {f"liquid.context@{n.lineno}" for name in allowed_fns for n in ast.walk(methods[name]) if isinstance(n, ast.Attribute) and n.attr == "parent_context"}
    uses = [u for u in uses if u not in allowed]
    obs.append(flow.ob("parent_context-is-read-only-by-copy-to-find-the-global-data", not uses, str(uses)))
    return obs


for _sfx in ("", "_async"):
    for _b in ("none", "scalar", "array"):
        render_node_contract("C15", _sfx, _b, lambda: REPLAY)


for _sfx in ("", "_async"):
    call_node_contract("C15", _sfx, lambda: REPLAY)


not_covered("C15", "environment and template globals are shared by design (the statement allows 'global data')", "the snippet tag and inline templates")

bounded("C15", "bounded/C15.py")

REPLAY_MISSING_ARG = r'''
def run(m):
    from liquid import Environment
    env = Environment(extra=True)
    got = env.from_string("{% macro m a %}[{{ a }}]{% endmacro %}{% assign a = 'CALLER' %}{% call m %}").render()
    return {"violated": got != "[]", "observed": got}
'''

REPLAY_NESTED = r'''
def run(m):
    from liquid import DictLoader, Environment
    env = Environment(extra=True, loader=DictLoader({"p": "[{{ a }}{{ secret }}]", "outer": "{% render 'p' %}",
          "base": "{% assign secret = 'S' %}{% block b %}{% endblock %}", "child": "{% extends 'base' %}{% block b %}{% render 'p' %}{% endblock %}"}))
    env.loader.templates.update({"l1": "{% render 'l2', a: 'A' %}", "l2": "{% render 'l3' %}", "l3": "{% render 'p' %}"})
    out = [env.from_string("{% render 'outer', a: 'A' %}").render(), env.get_template("child").render(),
           env.from_string("{% macro m a %}{% render 'p' %}{% endmacro %}{% call m 'A' %}").render(),
           env.from_string("{% render 'l1' %}").render(), env.from_string("{% render 'l2', a: 'A' %}").render()]
    return {"violated": out != ["[]"] * 5, "observed": out}
'''

REPLAY = r'''
def run(m):
    from bounded.C15 import run as brun
    r = brun("quick", 0)
    v = r["violations"]
    return {"failing": bool(v), "witness": v[0]["witness"] if v else "isolation", "call": v[0]["source"] if v else "caller/partial sweep", "result": v[0]["got"] if v else "ok"}
'''


# ---- "a rendered template cannot use the include tag" -- wherever the tag sits: the check
# ---- for disabled tags is made by Node.render / render_async, so every container must render its
# ---- children THROUGH them (never through render_to_output directly).  BlockNode is the container
# ---- under every if/for/case/capture body; both twins, blank-suppressed or not.

REPLAY_NESTED_INCLUDE = r'''
def run(m):
    import asyncio
    from liquid import Environment, DictLoader
    from liquid.exceptions import DisabledTagError
    env = Environment(loader=DictLoader({"inc": "INC", "p1": "{% if true %}{% include 'inc' %}{% endif %}", "p2": "{% for i in (1..1) %}{% include 'inc' %}{% endfor %}",
                                         "p3": "{% capture c %}{% include 'inc' %}{% endcapture %}{{ c }}", "p4": "{% include 'inc' %}"}))
    got = []
    for p in ("p1", "p2", "p3", "p4"):
        t = env.from_string("{% render '" + p + "' %}")
        for a in (False, True):
            try:
                got.append((p, a, asyncio.run(t.render_async()) if a else t.render()))
            except DisabledTagError:
                pass
    return {"violated": bool(got), "observed": got[:4], "witness": "include-inside-a-block-of-a-rendered-partial"}
'''

for _sfx in ("", "_async"):
    for _blank in (False, True):
        def _mkblock(sfx, blank):
            @contract("liquid.ast:BlockNode.render_to_output" + sfx, prop="C15", name=f"BlockNode.render_to_output{sfx}[blank-suppressed={blank}: every child is rendered through Node.render{sfx}, which checks disabled tags]")
            def bn(c):
                env = mk_env(c, suppress_blank_control_flow_blocks=VBool(z3.BoolVal(blank)))
                ctx = mk_ctx(c, env)
                kids = [c.obj("liquid.ast:Node", f"child{i}", token=NONE, blank=c.bool(f"child{i}_blank")) for i in range(2)]
                self = c.obj("liquid.ast:BlockNode", "block", token=NONE, nodes=c.st.alloc(HList(items=list(kids))), blank=VBool(z3.BoolVal(blank)))

                def via(kind):
                    def f(eng, st, a, k):
                        st.log.append((kind, a[0], a[1]))
                        return [(st, VInt(z3.Int(f"chars_{len(st.log)}")))]
                    return f
                for n_ in ("render", "render_async"):
                    c.summary("liquid.ast:Node." + n_, via("checked"))
                for n_ in ("render_to_output", "render_to_output_async"):
                    c.summary("liquid.ast:Node." + n_, via("unchecked"))
                c.eager_generators = True
                c.call(ctx, c.obj("io:StringIO", "buffer", __text__=c.str("out")), self_val=self)

                def post(r):
                    calls = [e for e in r.st.log if e[0] in ("checked", "unchecked")]
                    return z3.BoolVal([(e[0], e[1], e[2]) for e in calls] == [("checked", k, ctx) for k in kids])
                c.ensures("each-child-once-in-order-through-the-checking-entry-point-with-this-context", post)
                c.raises()
                c.replay("code", code=REPLAY_NESTED_INCLUDE)
        _mkblock(_sfx, _blank)


@structural("C15", "children-render-through-the-checking-entry-point")
def children_render_checked():
    """no code renders a node through render_to_output / render_to_output_async directly except
    Node.render / Node.render_async themselves (which check the context's disabled tags first)"""
    import ast
    from pyvc import flow, load
    obs = []
    n = 0
    for m in load.all_modules():
        mod = load.get_module(m)
        pm = None
        for call in flow.calls(mod.tree):
            if not (isinstance(call.func, ast.Attribute) and call.func.attr in ("render_to_output", "render_to_output_async")):
                continue
            pm = pm or flow.parents(mod.tree)
            fns = flow.enclosing(pm, call, (ast.FunctionDef, ast.AsyncFunctionDef))
            cls = flow.enclosing(pm, call, (ast.ClassDef,))
            where = f"{m.split('.', 1)[-1]}:{(cls[0].name + '.') if cls else ''}{fns[0].name if fns else '?'}@{call.lineno}"
            n += 1
            ok = m == "liquid.ast" and cls and cls[0].name == "Node" and fns and fns[0].name in ("render", "render_async") and flow.dotted(call.func.value) == "self"
            # super().render_to_output(...) inside an override of the same method is the node itself, not a child
            ok = ok or (flow.dotted(call.func.value).startswith("super()") and fns and fns[0].name == call.func.attr)
            # the default async method falls back to the node's OWN sync method (not a child either)
            ok = ok or (flow.dotted(call.func.value) == "self" and fns and fns[0].name == "render_to_output_async" and call.func.attr == "render_to_output")
            obs.append(flow.ob(f"{where}:only-Node.render-calls-render_to_output", bool(ok), ast.unparse(call)[:80], replay_schema="code", replay_extra={"code": REPLAY_NESTED_INCLUDE}))
    obs.append(flow.ob("render_to_output-call-sites-found", n >= 2, f"{n}"))
    return obs
