"""C25 (continued) -- string, selection and array filters under contract.

Array filters are verified on lists with a CONCRETE SPINE of 0..3 (concat: 0..2 + 0..2)
symbolic items: for every such length, for ALL item values (the tagged union of nil, booleans,
unbounded ints and arbitrary strings).  That is bounded in the list length only (stated per
contract) and unbounded in the values; the registered filter is the real composition
sequence_filter(flatten) o inner, executed with the recursive flatten generator run eagerly."""
import z3

from contracts.common import *  # noqa: F403
from pyvc.contract import contract
from pyvc.state import *  # noqa: F403
from pyvc.u import *  # noqa: F403

L = z3.Length
ARR = "liquid.builtin.filters.array"
STRF = "liquid.builtin.filters.string"
MISC = "liquid.builtin.filters.misc"
EMPTY = z3.Empty(SeqU)


def _items(c, n, tag="x"):
    xs = [c.any(f"{tag}{i}") for i in range(n)]
    for x in xs:
        c.requires(z3.Not(z3.Or(U.is_ref(x.t), U.is_flt(x.t))), "items: nil, booleans, ints, strings (nested arrays are flattened first; floats are abstract)")
    return xs


def _seq_of(terms):
    if not terms:
        return EMPTY
    units = [z3.Unit(t) for t in terms]
    return units[0] if len(units) == 1 else z3.Concat(*units)


def _cat(parts):
    parts = list(parts)
    if not parts:
        return EMPTY
    return parts[0] if len(parts) == 1 else z3.Concat(*parts)


def _result_seq(r):
    """Seq(U) of a list result; None if the result is not a list"""
    if isinstance(r.value, VRef) and isinstance(r.st.deref(r.value), HList):
        return r.engine.list_seq(r.st, r.value)
    return None


def _array(name, n, spec, label, m=None, extra_args=None):
    @contract(f"{ARR}:{name}", prop="C25", name=f"{name}[array of {n}{'' if m is None else ' + ' + str(m)} items]")
    def ar(c):
        c.eager_generators = True
        std_globals(c)
        xs = _items(c, n)
        lst = c.st.alloc(HList(items=list(xs)))
        args = [lst]
        ys = []
        if m is not None:
            ys = _items(c, m, "y")
            args.append(c.st.alloc(HList(items=list(ys))))

        def post(r):
            got = _result_seq(r)
            if got is None:
                return z3.BoolVal(False)
            return z3.And(got == spec(r, [x.t for x in xs], [y.t for y in ys]), z3.BoolVal(r.value != lst))
        c.call(*args)
        c.ensures(label + "(and-the-result-is-a-new-list)", post)
        c.raises()
        c.assume_note(f"BOUNDED in the list length only: an array with a concrete spine of {n} items, each item arbitrary")
        c.crosscheck(off=True)
        c.replay("code", code=REPLAY_ARRAY)


def _single_left(name, kind, spec, label, m=None):
    """the left value is not an array: a hash, a string or a number is treated as the array [value]
    (statement: 'return new lists with the documented membership' -- of ONE member here)"""
    @contract(f"{ARR}:{name}", prop="C25", name=f"{name}[left value is a {kind}: treated as a one-item array]")
    def sl(c):
        c.eager_generators = True
        std_globals(c)
        if kind in ("hash", "empty hash"):
            # a hash with two keys and arbitrary values (concrete spine, so the engine can also follow
            # an implementation that iterates it), or the empty hash
            left = c.dict(None, a=c.any("value_a"), b=c.any("value_b")) if kind == "hash" else c.dict(None)
            lt = lambda r: box(left)  # noqa: E731
        elif kind == "string":
            left = c.str("text")
            lt = lambda r: U.str(left.t)  # noqa: E731
        else:
            left = c.int("number")
            lt = lambda r: U.int(left.t)  # noqa: E731
        args = [left]
        ys = []
        if m is not None:
            ys = _items(c, m, "y")
            args.append(c.st.alloc(HList(items=list(ys))))

        def post(r):
            got = _result_seq(r)
            if got is None:
                return z3.BoolVal(False)
            return got == spec(r, [lt(r)], [y.t for y in ys])
        c.call(*args)
        c.ensures(label, post)
        c.raises()
        c.crosscheck(off=True)
        c.replay("code", code=REPLAY_SINGLE_LEFT)


REPLAY_SINGLE_LEFT = r'''
def run(m):
    from liquid import Environment
    env = Environment()
    bad = []
    data = {"h": {"a": 1, "b": 2}, "s": "ab", "n": 7, "e": {}}
    for src, want in (("{{ h | reverse | size }}", "1"), ("{{ e | reverse | size }}", "1"), ("{{ h | compact | size }}", "1"), ("{{ h | uniq | size }}", "1"), ("{{ h | concat: arr | size }}", "3"),
                      ("{{ s | reverse | join: '-' }}", "ab"), ("{{ n | concat: arr | join: '-' }}", "7-1-2")):
        got = env.from_string(src).render(arr=[1, 2], **data)
        if got != want:
            bad.append((src, got, want))
    return {"violated": bool(bad), "observed": bad[:4], "witness": "non-array-left-value-not-treated-as-one-item"}
'''


for _kind in ("hash", "empty hash", "string", "number"):
    _single_left("reverse", _kind, lambda r, xs, ys: _seq_of(xs), "the-single-item")
    _single_left("compact", _kind, lambda r, xs, ys: _seq_of(xs), "the-single-item(it-is-not-nil)")
    _single_left("uniq", _kind, lambda r, xs, ys: _seq_of(xs), "the-single-item")
    _single_left("concat", _kind, lambda r, xs, ys: _seq_of(xs + ys), "the-single-item-then-the-second-array", m=2)


def _py_eq(r, a, b):
    """Python's == on two items of the tagged union, as the engine models it (True == 1)"""
    outs = r.engine.py_eq(r.st.fork(), VU(a), VU(b))
    terms = []
    for s, v in outs:
        pc_new = [p for p in s.pc[len(r.st.pc):]]
        t = v if not isinstance(v, Raised) else z3.BoolVal(False)
        terms.append(z3.And(*pc_new, t) if pc_new else t)
    return z3.Or(*terms) if terms else z3.BoolVal(False)


for _n in range(0, 4):
    _array("reverse", _n, lambda r, xs, ys: _seq_of(list(reversed(xs))), "items-in-reverse-order")
    _array("compact", _n, lambda r, xs, ys: _cat(z3.If(U.is_none(x), EMPTY, z3.Unit(x)) for x in xs), "nil-items-removed-order-kept")
    _array("uniq", _n, lambda r, xs, ys: _cat(z3.If(z3.Or(*[_py_eq(r, xs[j], xs[i]) for j in range(i)]) if i else z3.BoolVal(False), EMPTY, z3.Unit(xs[i])) for i in range(len(xs))),
           "first-occurrence-of-each-item-kept-in-order")
for _n in range(0, 3):
    for _m in range(0, 3):
        _array("concat", _n, lambda r, xs, ys: _seq_of(xs + ys), "items-of-the-first-array-then-the-second", m=_m)


def _select(name, n, pick):
    @contract(f"{ARR}:{name}", prop="C25", name=f"{name}[array of {n} items]")
    def sel(c):
        std_globals(c)
        xs = _items(c, n)
        c.call(c.st.alloc(HList(items=list(xs))))
        want = pick([x.t for x in xs])
        c.ensures("selects-the-documented-item(nil-for-an-empty-array)", lambda r: box(r.value) == want)
        c.raises()
        c.assume_note(f"BOUNDED in the list length only: {n} items, each arbitrary")
        c.crosscheck(off=True)
        c.replay("code", code=REPLAY_ARRAY)


for _n in range(0, 4):
    _select("first", _n, lambda xs: xs[0] if xs else U.none)
    _select("last", _n, lambda xs: xs[-1] if xs else U.none)


@contract(f"{ARR}:first", prop="C25", name="first[string]")
def first_of_string(c):
    std_globals(c)
    c.call(c.str("s"))
    c.ensures("a-string-has-no-first-item", lambda r: box(r.value) == U.none)
    c.raises()


@contract(f"{ARR}:last", prop="C25", name="last[string]")
def last_of_string(c):
    std_globals(c)
    c.call(c.str("s"))
    c.ensures("a-string-has-no-last-item", lambda r: box(r.value) == U.none)
    c.raises()


# ---- size: the length of sized values and 0 otherwise

@contract(f"{MISC}:size", prop="C25", name="size[scalar]")
def size_scalar(c):
    std_globals(c)
    v = c.any("val")
    c.requires(z3.Not(z3.Or(U.is_ref(v.t), U.is_flt(v.t))))
    c.call(v)
    c.ensures("length-of-a-string-and-0-for-nil-booleans-and-numbers", lambda r: box(r.value) == U.int(z3.If(U.is_str(v.t), L(U.s(v.t)), 0)))
    c.raises()


for _n in range(0, 4):
    def _mksize(n):
        @contract(f"{MISC}:size", prop="C25", name=f"size[array of {n} items]")
        def size_list(c):
            std_globals(c)
            xs = _items(c, n)
            c.call(c.st.alloc(HList(items=list(xs))))
            c.ensures("number-of-items", lambda r: box(r.value) == U.int(z3.IntVal(n)))
            c.raises()
            c.crosscheck(off=True)
    _mksize(_n)


# ---- case and whitespace filters behave like the corresponding string operations

def _str_op(fname, uf_name, doc):
    @contract(f"{STRF}:{fname}", prop="C25", name=f"{fname}[string]")
    def so(c):
        std_globals(c)
        s = c.str("val")
        c.call(s)
        c.ensures(f"is-{doc}", lambda r: z3.And(z3.BoolVal(isinstance(r.value, VStr)), r.value.t == z3.Function(uf_name, S, S)(s.t)) if isinstance(r.value, VStr) else z3.BoolVal(False))
        c.raises()
        c.assume_note(f"{doc} is the uninterpreted model {uf_name} of the Python string method (validated against CPython by the cross-check)")


for _f, _uf, _doc in (("upcase", "str_upper", "str.upper()"), ("downcase", "str_lower", "str.lower()"), ("capitalize", "str_capitalize", "str.capitalize()"),
                      ("strip", "str_strip", "str.strip()"), ("lstrip", "str_lstrip", "str.lstrip()"), ("rstrip", "str_rstrip", "str.rstrip()")):
    _str_op(_f, _uf, _doc)


# ---- slice on strings: the window [start, start+length) of positions (negative start counts
# ---- from the end), intersected with the value

def _slice(with_length):
    @contract(f"{STRF}:slice_", prop="C25", name=f"slice[string, {'start and length' if with_length else 'start only'}]")
    def sl(c):
        std_globals(c)
        s, start, length = c.str("val"), c.int("start"), c.int("length")
        if with_length:
            c.call(s, start, length)
            ln = length.t
        else:
            c.call(s, start)
            ln = z3.IntVal(1)
        for a in (start, length):
            c.requires(z3.And(a.t >= -(2**63), a.t <= 2**63 - 1), "arguments in the 64-bit range (beyond it each argument is clamped on its own: tests 'big ... argument')")
        n = L(s.t)
        st0 = z3.If(start.t >= 0, start.t, n + start.t)
        lo = zmin(zmax(st0, z3.IntVal(0)), n)
        hi = zmin(zmax(st0 + ln, lo), n)
        c.ensures("the-window-of-positions-intersected-with-the-value", lambda r: r.value.t == z3.SubString(s.t, lo, hi - lo) if isinstance(r.value, VStr) else z3.BoolVal(False))
        c.raises()
        c.pools["start"] = [-7, -3, -1, 0, 1, 2, 5, 100]
        c.pools["length"] = [-2, 0, 1, 2, 10]


for _wl in (True, False):
    _slice(_wl)


# ---- default returns its argument exactly for nil, false and empty values

@contract(f"{MISC}:default", prop="C25", name="default[scalar value]")
def default_scalar(c):
    std_globals(c)
    v, d = c.any("val"), c.any("default")
    c.requires(z3.Not(z3.Or(U.is_ref(v.t), U.is_flt(v.t))))
    c.call(v, d)
    empty = z3.Or(U.is_none(v.t), z3.And(U.is_bool(v.t), z3.Not(U.b(v.t))), z3.And(U.is_str(v.t), L(U.s(v.t)) == 0))
    c.ensures("the-default-exactly-for-nil-false-and-the-empty-string(0-is-not-empty)", lambda r: box(r.value) == z3.If(empty, d.t, v.t))
    c.raises()


for _n in (0, 1, 2):
    def _mkdef(n):
        @contract(f"{MISC}:default", prop="C25", name=f"default[array of {n} items]")
        def default_list(c):
            std_globals(c)
            xs = _items(c, n)
            lst = c.st.alloc(HList(items=list(xs)))
            d = c.any("default")
            c.call(lst, d)
            c.ensures("the-default-exactly-for-the-empty-array", lambda r: z3.BoolVal(r.value == lst) if n else box(r.value) == d.t)
            c.raises()
            c.crosscheck(off=True)
    _mkdef(_n)


# ... with `allow_false: true` only FALSE is let through: nil and the empty values are still replaced

REPLAY_ALLOW_FALSE = r'''
def run(m):
    from liquid import Environment
    env = Environment()
    out = env.from_string("{{ f | default: 'd', allow_false: true }}|{{ n | default: 'd', allow_false: true }}|{{ s | default: 'd', allow_false: true }}|{{ l | default: 'd', allow_false: true }}|{{ h | default: 'd', allow_false: true }}|{{ z | default: 'd', allow_false: true }}").render(f=False, n=None, s="", l=[], h={}, z=0)
    return {"violated": out != "false|d|d|d|d|0", "observed": out, "witness": "allow_false-lets-empty-values-through"}
'''


@contract(f"{MISC}:default", prop="C25", name="default[scalar value, allow_false: true]")
def default_scalar_allow_false(c):
    std_globals(c)
    v, d = c.any("val"), c.any("default")
    c.requires(z3.Not(z3.Or(U.is_ref(v.t), U.is_flt(v.t))))
    c.call(v, d, allow_false=VBool(z3.BoolVal(True)))
    replaced = z3.Or(U.is_none(v.t), z3.And(U.is_str(v.t), L(U.s(v.t)) == 0))
    c.ensures("false-passes-nil-and-the-empty-string-are-still-replaced", lambda r: box(r.value) == z3.If(replaced, d.t, v.t))
    c.raises()
    c.replay("code", code=REPLAY_ALLOW_FALSE)


@contract(f"{MISC}:default", prop="C25", name="default[empty array or hash, allow_false: true]")
def default_empty_allow_false(c):
    std_globals(c)
    d = c.any("default")
    kind = c.bool("is_hash")

    def entry(eng, cc, func):
        outs = []
        for s, k in eng.branch(cc.st, kind.t):
            left = s.alloc(HDict(items={})) if k else s.alloc(HList(items=[]))
            outs.extend(eng.run(func, s, [left, d], {"allow_false": VBool(z3.BoolVal(True))}))
        return outs
    c.entry = entry
    c.ensures("an-empty-array-or-hash-is-replaced-by-the-default", lambda r: box(r.value) == d.t)
    c.raises()
    c.crosscheck(off=True)
    c.replay("code", code=REPLAY_ALLOW_FALSE)


REPLAY_ARRAY = r'''
def run(m):
    from liquid import Environment
    env = Environment()
    bad = []
    import itertools
    pool = [None, 1, True, "a", "b", 0, False, "", 2]
    def call(f, *a):
        return env.filters[f](*a)
    for n in range(0, 4):
        for xs in itertools.product(pool, repeat=n):
            xs = list(xs)
            keep = list(xs)
            exp = {"reverse": xs[::-1], "compact": [x for x in xs if x is not None], "uniq": [x for i, x in enumerate(xs) if xs.index(x) == i],
                   "first": xs[0] if xs else None, "last": xs[-1] if xs else None}
            for f, want in exp.items():
                got = call(f, xs)
                if got != want or [type(a) for a in (got if isinstance(got, list) else [got])] != [type(a) for a in (want if isinstance(want, list) else [want])] or xs != keep or (isinstance(got, list) and got is xs):
                    bad.append((f, keep, got, want))
            if n <= 2:
                got = call("concat", xs, ["z", None])
                if got != xs + ["z", None] or got is xs:
                    bad.append(("concat", keep, got))
    return {"violated": bool(bad), "observed": bad[:4], "witness": "array-filter"}
'''


# ---- sort / sort_natural with a key: "objects without the key are at the end"; records with
# ---- CONSTANT key values (the order of constant strings is decided exactly)

REPLAY_SORT_KEY = r'''
def run(m):
    from liquid import Environment
    env = Environment()
    bad = []
    recs = [{"t": "pear", "i": 1}, {"i": 2}, {"t": "Zebra", "i": 3}, {"t": "apple", "i": 4}]
    for src, want in (("{{ r | sort_natural: 't' | map: 'i' | join: '' }}", "4132"), ("{{ r | sort: 't' | map: 'i' | join: '' }}", "3412")):
        got = env.from_string(src).render(r=recs)
        if got != want:
            bad.append((src, got, want))
    return {"violated": bool(bad), "observed": bad, "witness": "records-without-the-key-not-last"}
'''


def _sort_key_contract(fname, values, want_order):
    @contract(f"{ARR}:{fname}", prop="C25", name=f"{fname}[records keyed {values}: ordered by the key, records without it last]")
    def sk(c):
        c.eager_generators = True
        std_globals(c)
        recs = [c.dict(None, **({"t": const(v)} if v is not None else {}), i=c.any(f"other{i}")) for i, v in enumerate(values)]
        lst = c.st.alloc(HList(items=list(recs)))
        c.call(lst, const("t"))

        def post(r):
            items = r.engine.concrete_items(r.st, r.value)
            return z3.BoolVal(items == [recs[j] for j in want_order] and r.value != lst)
        c.ensures("sorted-by-the-key-with-keyless-records-at-the-end(a-new-list)", post)
        c.raises()
        c.crosscheck(off=True)
        c.replay("code", code=REPLAY_SORT_KEY)


_sort_key_contract("sort_natural", ("pear", None), (0, 1))
_sort_key_contract("sort_natural", (None, "Zebra", "apple"), (2, 1, 0))
_sort_key_contract("sort_natural", ("b", "A", None), (1, 0, 2))
_sort_key_contract("sort", ("pear", None, "Zebra"), (2, 0, 1))
_sort_key_contract("sort", (None, "z"), (1, 0))
