"""C27 -- macro calls and with blocks bind arguments as documented."""
import itertools

import z3

from contracts.common import *  # noqa: F403
from pyvc.contract import contract
from pyvc.run import bounded, not_covered, structural
from pyvc.state import *  # noqa: F403
from pyvc.u import *  # noqa: F403

Sel = z3.Select
CALL = "liquid.extra.tags.macro_tag:CallNode"
ARGS = "liquid.builtin.expressions.arguments"


def _pres(h):
    p = h.present if h.present is not None else z3.K(U, z3.BoolVal(False))
    for ck in h.items:
        p = z3.Store(p, box(const(ck)), True)
    return p


def _val(h):
    v = h.val if h.val is not None else z3.K(U, U.none)
    for ck, cv in h.items.items():
        v = z3.Store(v, box(const(ck)), box(cv))
    return v


def _mk(m, k, q):
    @contract(CALL + ".macro_args", prop="C27", name=f"macro_args[{m}-params,{k}-positional,{q}-keyword]")
    def macro_args(c):
        pnames = [f"p{i}" for i in range(m)]
        defaults = [c.any(f"default{i}") for i in range(m)]  # None = no default
        params = {n: c.obj(ARGS + ":Parameter", n, name=const(n), value=defaults[i]) for i, n in enumerate(pnames)}
        macro = c.obj("liquid.extra.tags.macro_tag:Macro", "macro", args=c.st.alloc(HDict(items=dict(params))), block=NONE)
        pos = [c.any(f"a{i}") for i in range(k)]
        kwn = [c.str(f"kwname{i}") for i in range(q)]
        kwv = [c.any(f"kwval{i}") for i in range(q)]
        self = c.obj(CALL, "call", name=c.str("macro_name"),
                     args=c.st.alloc(HList(items=[c.obj(ARGS + ":PositionalArgument", f"pos{i}", value=pos[i]) for i in range(k)])),
                     kwargs=c.st.alloc(HList(items=[c.obj(ARGS + ":KeywordArgument", f"kw{i}", name=kwn[i], value=kwv[i]) for i in range(q)])))
        c.call(macro, self_val=self)

        def last_kw(name_term, fallback):
            """value of the last keyword argument named `name_term`, else fallback"""
            acc = fallback
            for i in range(q):
                acc = z3.If(kwn[i].t == name_term, kwv[i].t, acc)
            return acc

        def post_args(r):
            h = r.st.deref(r.st.deref(r.value).fields["args"])
            conj = []
            for i, n in enumerate(pnames):
                key = U.str(z3.StringVal(n))
                base = pos[i].t if i < k else defaults[i].t
                conj.append(z3.And(Sel(_pres(h), key), Sel(_val(h), key) == last_kw(z3.StringVal(n), base)))
            j = z3.Const("j!p", U)
            conj.append(z3.ForAll([j], z3.Implies(Sel(_pres(h), j), z3.Or(*[j == U.str(z3.StringVal(n)) for n in pnames]) if pnames else z3.BoolVal(False))))
            return z3.And(*conj)

        def post_excess(r):
            h = r.st.deref(r.st.deref(r.value).fields["excess_args"])
            seq = r.engine.list_seq(r.st, r.st.deref(r.value).fields["excess_args"])
            want = [pos[i].t for i in range(m, k)]
            exp = z3.Empty(SeqU) if not want else (z3.Unit(want[0]) if len(want) == 1 else z3.Concat(*[z3.Unit(w) for w in want]))
            return seq == exp

        def post_kwargs(r):
            h = r.st.deref(r.st.deref(r.value).fields["excess_kwargs"])
            j = z3.String("j!kw")
            is_param = z3.Or(*[j == z3.StringVal(n) for n in pnames]) if pnames else z3.BoolVal(False)
            given = z3.Or(*[kwn[i].t == j for i in range(q)]) if q else z3.BoolVal(False)
            return z3.ForAll([j], z3.And(
                Sel(_pres(h), U.str(j)) == z3.And(given, z3.Not(is_param)),
                z3.Implies(z3.And(given, z3.Not(is_param)), Sel(_val(h), U.str(j)) == last_kw(j, U.none))))

        c.ensures("parameters-bound-positional-then-keyword-then-default", post_args)
        c.ensures("surplus-positional-arguments-in-order", post_excess)
        c.ensures("surplus-keyword-arguments-by-name-last-wins", post_kwargs)
        c.raises()
        c.replay("code", code=REPLAY)


_COMBOS = [(m, k, q) for m in range(0, 4) for k in range(0, 5) for q in range(0, 4)]
for _m, _k, _q in _COMBOS:
    _mk(_m, _k, _q)

# ---- with: arguments are evaluated in the enclosing scope, bound only inside the block ----

for _sfx in ("", "_async"):
    def _mkw(sfx):
        @contract("liquid.extra.tags._with:WithNode.render_to_output" + sfx, prop="C27", name=f"WithNode.render_to_output{sfx}")
        def wn(c):
            env = mk_env(c)
            ctx = mk_ctx(c, env)
            c.requires(c.st.deref(env).fields["context_depth_limit"].t >= 8, "context depth limit not reached")
            scope = c.st.deref(ctx).fields["scope"]
            maps0 = list(c.st.deref(c.st.deref(scope).fields["_maps"]).items)
            names = [c.str("name0"), c.str("name1")]
            vals = [c.any("value0"), c.any("value1")]
            exprs = [c.obj("liquid.expression:Expression", f"expr{i}", value=vals[i]) for i in range(2)]
            args = [c.obj(ARGS + ":KeywordArgument", f"kw{i}", name=names[i], value=exprs[i]) for i in range(2)]
            block = c.obj("liquid.ast:BlockNode", "block", blank=c.bool("blank"))
            self = c.obj("liquid.extra.tags._with:WithNode", "with", args=c.st.alloc(HList(items=list(args))), block=block, token=NONE)

            def depth(st):
                return len(st.deref(st.deref(scope).fields["_maps"]).items)

            def ev(eng, st, a, k):
                st.log.append(("evaluated-at-depth", depth(st)))
                return [(st, st.deref(a[0]).fields["value"])]

            def rb(eng, st, a, k):
                maps = st.deref(st.deref(scope).fields["_maps"]).items
                st.log.append(("block-rendered", depth(st), maps[0]))
                # the block returns, or exits by break/continue (inside a for loop) or a Liquid error
                outs = [(st.fork(), VInt(z3.IntVal(0)))]
                for cls in ("BreakLoop", "ContinueLoop", "LiquidSyntaxError"):
                    outs.append((st.fork(), Raised(VExc(cls, (const(cls),)))))
                return outs
            c.summary("liquid.expression:Expression.evaluate" + sfx, ev)
            c.summary("liquid.ast:BlockNode.render" + sfx, rb)
            c.summary("liquid.ast:Node.render" + sfx, rb)
            c.call(ctx, c.obj("io:StringIO", "buffer", __text__=c.str("out")), self_val=self)
            d0 = len(maps0)
            c.ensures("arguments-are-evaluated-in-the-enclosing-scope", lambda r: z3.BoolVal([e for e in r.st.log if e[0] == "evaluated-at-depth"] == [("evaluated-at-depth", d0)] * 2))

            def bound(r):
                rb_ = [e for e in r.st.log if e[0] == "block-rendered"]
                if len(rb_) != 1 or rb_[0][1] != d0 + 1:
                    return z3.BoolVal(False)
                ns = r.st.deref(rb_[0][2])
                if not isinstance(ns, HDict):
                    return z3.BoolVal(False)
                got = r.engine.get_item(r.st.fork(), rb_[0][2], names[1])
                return z3.And(*[box(v) == vals[1].t for _s, v in got if not isinstance(v, Raised)]) if got else z3.BoolVal(False)
            c.ensures("the-block-renders-with-exactly-one-more-namespace-holding-the-arguments", bound)
            c.ensures("the-namespace-is-removed-afterwards", lambda r: z3.BoolVal(r.st.deref(r.st.deref(scope).fields["_maps"]).items == maps0))
            c.raises("ContextDepthError", "BreakLoop", "ContinueLoop", "LiquidSyntaxError")
            c.ensures_exc("the-namespace-is-removed-also-when-the-block-exits-by-an-exception", lambda r: z3.BoolVal(r.st.deref(r.st.deref(scope).fields["_maps"]).items == maps0))
            c.replay("code", code=REPLAY_WITH)
    _mkw(_sfx)

REPLAY_WITH = r'''
def run(m):
    import asyncio
    from liquid import Environment
    t = Environment(extra=True).from_string("{% assign a = 1 %}{% assign b = 2 %}{% with a: b, b: a %}{{ a }},{{ b }}{% endwith %}|{{ a }},{{ b }}")
    out = [t.render(), asyncio.run(t.render_async())]
    t2 = Environment(extra=True).from_string("{% for i in (1..2) %}{% with w: i %}{% if i == 1 %}{% continue %}{% endif %}{{ w }}{% endwith %}{% endfor %}|{{ w }}|{{ i }}")
    out2 = [t2.render(), asyncio.run(t2.render_async())]
    return {"violated": out != ["2,1|1,2", "2,1|1,2"] or out2 != ["2||", "2||"], "observed": out + out2}
'''


# the scope chain lookup that makes with/macro arguments shadow outer names (also for nil values)
for _n in (2, 3):
    chain_getitem_contract("C27", _n, lambda: REPLAY_SHADOW)

REPLAY_SHADOW = r'''
def run(m):
    import asyncio
    from liquid import Environment
    env = Environment(extra=True)
    t = env.from_string("{% assign x = 'outer' %}{% with x: nil %}[{{ x }}]{% endwith %}{% macro f a %}({{ a }}){% endmacro %}{% call f nil %}", globals={"a": "global"})
    out = [t.render(), asyncio.run(t.render_async())]
    return {"violated": out != ["[]()", "[]()"], "observed": out, "witness": "nil-binding-shadows"}
'''

# a macro body runs in an isolated copy of the context whose globals are [the bound arguments, global data] in
# that order: a parameter, `args` or `kwargs` is never answered by render-time data of the same name
from contracts.C15 import _copy_isolated  # noqa: E402

for _origin in ("root", "partial"):
    contract("liquid.context:RenderContext.copy", prop="C27", name=f"copy[macro arguments shadow global data, caller={_origin}]")(lambda c, o=_origin: _copy_isolated(c, o, lambda: REPLAY_MACRO_GLOBALS))

REPLAY_MACRO_GLOBALS = r"""
def run(m):
    import asyncio
    from liquid import Environment
    env = Environment(extra=True)
    src = "{% macro f a, b: 'dflt', c %}[a={{ a }} b={{ b }} c={{ c }} args={{ args | join: ',' }} kw={% for p in kwargs %}{{ p[0] }}:{{ p[1] }}{% endfor %}]{% endmacro %}{% call f 1 %}{% call f 1, 2, 3, 4, z: 5 %}"
    want = "[a=1 b=dflt c= args= kw=][a=1 b=2 c=3 args=4 kw=z:5]"
    data = {"a": "GA", "b": "GB", "c": "GC", "args": ["GARGS"], "kwargs": {"g": "GKW"}}
    t = env.from_string(src)
    out = [t.render(**data), asyncio.run(t.render_async(**data)), env.from_string(src, globals=data).render()]
    bad = [o for o in out if o != want]
    return {"failing": bool(bad), "violated": bool(bad), "witness": "render-data-shadows-a-macro-argument", "call": src, "result": bad[0] if bad else "ok", "expected": want}
"""

for _sfx in ("", "_async"):
    call_node_contract("C27", _sfx, lambda: REPLAY)


not_covered("C27", "Parameter.parse / parse_arguments (token level)", "signatures beyond 3 parameters / 4 positional / 3 keyword arguments (macro_args is verified per arity; each arity with arbitrary names and values)")

bounded("C27", "bounded/C27.py")

REPLAY = r'''
def run(m):
    from bounded.C27 import run as brun
    r = brun("quick", 0)
    v = r["violations"]
    return {"failing": bool(v), "witness": v[0]["witness"] if v else "macro-binding", "call": v[0]["source"] if v else "macro/with sweep", "result": v[0]["got"] if v else "ok"}
'''
