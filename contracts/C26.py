"""C26 -- null translations leave message text intact."""
import ast

import z3

from contracts.common import *  # noqa: F403
from pyvc import flow, load
from pyvc.contract import contract
from pyvc.run import bounded, not_covered, structural
from pyvc.state import *  # noqa: F403
from pyvc.u import *  # noqa: F403

TR = "liquid.extra.filters.translate"


@contract(TR + ":_count", prop="C26")
def count(c):
    """the plural form is chosen by n = int(count); booleans and None mean 'no count'"""
    v = c.any("val")
    for a in ("__int__", "__index__", "__trunc__"):
        c.requires(z3.Not(z3.And(U.is_ref(v.t), z3.Function("ref_hasattr$" + a, U, B)(v.t))), "JSON-like data")
    c.call(v)
    t = v.t
    c.ensures("integers-including-0-and-1-are-their-own-count", lambda r: z3.Implies(U.is_int(t), box(r.value) == t))
    c.ensures("none-and-booleans-mean-no-count", lambda r: z3.Implies(z3.Or(U.is_none(t), U.is_bool(t)), box(r.value) == U.none))
    c.ensures("numeric-strings-are-converted", lambda r: z3.Implies(z3.And(U.is_str(t), str_is_int(U.s(t))), box(r.value) == U.int(int_of_str(U.s(t)))))
    c.ensures("anything-else-is-no-count", lambda r: z3.Implies(z3.And(U.is_str(t), z3.Not(str_is_int(U.s(t)))), box(r.value) == U.none))
    c.raises()
    c.replay("code", code=REPLAY)


# ---- which form the filters select with gettext's NullTranslations (callee contracts written
# ---- from the gettext documentation: gettext(m) = m, pgettext(c, m) = m,
# ---- ngettext(s, p, n) = s if n == 1 else p, npgettext(c, s, p, n) likewise)

def _null_translations(c):
    mod = load.get_module(TR)
    stubs = {}
    for name, fn in (("gettext", lambda a: a[0]), ("pgettext", lambda a: a[1]), ("ngettext", None), ("npgettext", None)):
        stubs[name] = VFunc(ast.parse(f"def null_{name}(*a): pass").body[0], mod, None, f"null_{name}", None)

    def plural_form(offset):
        def f(eng, st, a, k):
            s_, p_, n_ = a[offset], a[offset + 1], a[offset + 2]
            n = eng.num_term(n_)
            st.log.append(("plural-call", n))
            return [(st, VStr(z3.If(n == 1, unbox_s(s_), unbox_s(p_))))]
        return f
    c.summary(TR + ":null_gettext", lambda eng, st, a, k: [(st, a[0])])
    c.summary(TR + ":null_pgettext", lambda eng, st, a, k: [(st, a[1])])
    c.summary(TR + ":null_ngettext", plural_form(0))
    c.summary(TR + ":null_npgettext", plural_form(1))
    return c.obj("gettext:NullTranslations", "null_translations", **stubs)


def unbox_s(v):
    if isinstance(v, VStr):
        return v.t
    return U.s(box(v))


for _with_ctx in (False, True):
    def _mkt(with_ctx):
        @contract(TR + ":Translate.__call__", prop="C26", name=f"t-filter[message-context={with_ctx}]")
        def tcall(c):
            env = mk_env(c, autoescape=VBool(z3.BoolVal(False)))
            ctx = mk_ctx(c, env)
            left, plural = c.str("message"), c.str("plural_message")
            count = c.any("count")
            c.requires(z3.Or(U.is_none(count.t), U.is_int(count.t), U.is_bool(count.t)), "count: an integer, a boolean or absent")
            has_plural = c.bool("plural_given")
            self = c.obj(TR + ":Translate", "t", autoescape_message=c.bool("autoescape_message"), message_interpolation=VBool(z3.BoolVal(False)), translations_var=c.str("tv"), default_translations=NONE)
            tr = _null_translations(c)
            c.summary(TR + ":BaseTranslateFilter._resolve_translations", lambda eng, st, a, k: [(st, tr)])
            mc = [c.str("message_context")] if with_ctx else []

            def entry(eng, cc, func):
                outs = []
                for s, given in eng.branch(cc.st, has_plural.t):
                    kw = {"context": ctx, "count": count}
                    if given:
                        kw["plural"] = plural
                    outs.extend(eng.run(func, s, [left] + mc, kw, self_val=self))
                return outs
            c.entry = entry
            n_given = U.is_int(count.t)

            def post(r):
                res = unbox_s(r.value)
                use_plural = z3.And(has_plural.t, n_given, U.i(count.t) != 1)
                return res == z3.If(use_plural, plural.t, left.t)
            c.ensures("selects-the-plural-message-exactly-when-a-plural-and-a-count-other-than-1-are-given", post)
            c.raises()
            c.assume_note("gettext.NullTranslations: gettext(m) = m; pgettext(c, m) = m; ngettext(s, p, n) = s if n == 1 else p; npgettext likewise (Python documentation)")
            c.replay("code", code=REPLAY)
    _mkt(_with_ctx)


# ---- the t filter leaves TRUSTED message text intact: with autoescape on and autoescape_message
# ---- off, neither the message, the plural nor the context is HTML-escaped; with both on, each is

@contract(TR + ":Translate.__call__", prop="C26", name="t-filter[message text is escaped exactly when autoescape_message is on]")
def t_autoescape(c):
    ae, aem = c.bool("autoescape"), c.bool("autoescape_message")
    env = mk_env(c, autoescape=ae)
    ctx = mk_ctx(c, env)
    left, plural = c.str("message"), c.str("plural_message")
    count = c.int("count")
    self = c.obj(TR + ":Translate", "t", autoescape_message=aem, message_interpolation=VBool(z3.BoolVal(False)), translations_var=c.str("tv"), default_translations=NONE)
    tr = _null_translations(c)
    c.summary(TR + ":BaseTranslateFilter._resolve_translations", lambda eng, st, a, k: [(st, tr)])
    c.call(left, self_val=self, context=ctx, count=count, plural=plural)
    esc = z3.Function("html_escape", S, S)
    on = z3.And(ae.t, aem.t)

    def post(r):
        res = unbox_s(r.value)
        want_s = z3.If(on, esc(left.t), left.t)
        want_p = z3.If(on, esc(plural.t), plural.t)
        return res == z3.If(count.t != 1, want_p, want_s)
    c.ensures("singular-and-plural-text-are-escaped-together-exactly-when-autoescape-and-autoescape_message-are-on", post)
    c.raises()
    c.replay("code", code=REPLAY_T_ESCAPE)


REPLAY_T_ESCAPE = r'''
def run(m):
    from liquid import Environment
    from liquid.extra import add_filters_and_tags
    from liquid.extra.filters.translate import Translate
    env = Environment(autoescape=True)
    env.add_filter("t", Translate(autoescape_message=False))
    out = [env.from_string("{{ '<b>one</b>' | t: plural: '<b>many</b>', count: n }}").render(n=n) for n in (1, 2)]
    return {"violated": out != ["<b>one</b>", "<b>many</b>"], "observed": out, "witness": "trusted-message-text-escaped"}
'''


# ---- format_message (all five filters): every %(name)s of THIS message text is replaced by the
# ---- named variable -- a keyword argument shadows the render context, also when its value is
# ---- falsy -- and nothing else in the text changes (concrete message text, arbitrary values)

MESSAGE = "Hi %(name)s, 100% of %(other)s and 50%% %(name)s"


@contract(TR + ":BaseTranslateFilter.format_message", prop="C26", name="format_message[keyword arguments shadow the context, whatever their value]")
def format_message(c):
    env = mk_env(c, autoescape=VBool(z3.BoolVal(False)))
    kwv = c.any("keyword_value")
    c.requires(z3.Not(z3.Or(U.is_ref(kwv.t), U.is_flt(kwv.t))), "a scalar keyword value (nil, boolean, int, string)")
    outer_name, outer_other = c.str("context_name"), c.str("context_other")
    scope0 = c.st.alloc(HDict(items={"name": outer_name, "other": outer_other}))
    ctx = mk_ctx(c, env, maps=[scope0])
    c.requires(c.st.deref(env).fields["context_depth_limit"].t >= 8, "context depth limit not reached")
    self = c.obj(TR + ":BaseTranslateFilter", "filter", autoescape_message=c.bool("aem"), message_interpolation=VBool(z3.BoolVal(True)), translations_var=c.str("tv"), default_translations=NONE)
    mv = c.st.alloc(HDict(items={"name": kwv}))
    c.call(ctx, const(MESSAGE), mv, self_val=self)

    def post(r):
        res = unbox_s(r.value)
        shown = z3.If(U.is_none(kwv.t), z3.StringVal(""), z3.If(U.is_str(kwv.t), U.s(kwv.t), z3.If(U.is_bool(kwv.t), z3.If(U.b(kwv.t), z3.StringVal("true"), z3.StringVal("false")),
                                                                                                              z3.If(U.i(kwv.t) < 0, z3.Concat(z3.StringVal("-"), z3.IntToStr(-U.i(kwv.t))), z3.IntToStr(U.i(kwv.t))))))
        want = z3.Concat(z3.StringVal("Hi "), shown, z3.StringVal(", 100% of "), outer_other.t, z3.StringVal(" and 50%% "), shown)
        return res == want
    c.ensures("placeholders-of-this-text-are-replaced(keyword-arguments-first)-and-other-percent-signs-stay", post)
    c.raises()
    c.assume_note("the message text is the constant '" + MESSAGE + "' (the regular expression is run by the real re module on it); values are arbitrary")
    c.crosscheck(off=True)
    c.replay("code", code=REPLAY_FORMAT)


REPLAY_FORMAT = r'''
def run(m):
    from liquid import Environment
    env = Environment(extra=True)
    bad = []
    for v, shown in ((0, "0"), ("", ""), (False, "false"), (None, ""), ("x", "x")):
        out = env.from_string("{{ 'Hi %(name)s, 100% of %(other)s' | t: name: v }}").render(v=v, name="OUTER", other="o")
        if out != f"Hi {shown}, 100% of o":
            bad.append((v, out))
    return {"violated": bool(bad), "observed": bad, "witness": "falsy-keyword-argument-not-shadowing"}
'''


TAG = "liquid.extra.tags.translate_tag"

for _with_ctx in (False, True):
    for _has_plural in (False, True):
        def _mkg(with_ctx, has_plural):
            @contract(TAG + ":TranslateNode.gettext", prop="C26", name=f"translate-tag.gettext[plural-block={has_plural},message-context={with_ctx}]")
            def tg(c):
                sing, plur = c.str("singular_text"), c.str("plural_text")
                count = c.int("count")
                sb = c.obj(TAG + ":MessageBlock", "singular", text=sing)
                pb = c.obj(TAG + ":MessageBlock", "plural", text=plur) if has_plural else NONE
                self = c.obj(TAG + ":TranslateNode", "node", singular_block=sb, plural_block=pb)
                tr = _null_translations(c)
                mc = c.str("message_context") if with_ctx else NONE
                if with_ctx:
                    c.requires(z3.Length(mc.t) > 0, "a message context was given")
                c.call(tr, self_val=self, count=count, message_context=mc)
                want = z3.If(z3.And(z3.BoolVal(has_plural), count.t != 1), plur.t, sing.t)
                c.ensures("plural-text-exactly-when-there-is-a-plural-block-and-the-count-is-not-1(including-0)", lambda r: unbox_s(r.value) == want)
                c.raises()
                c.replay("code", code=REPLAY_TAGCOUNT)
        _mkg(_with_ctx, _has_plural)


@contract(TAG + ":TranslateNode._format_message", prop="C26", name="translate-tag._format_message[the placeholders of the text being formatted, on every render]")
def tag_format_twice(c):
    """The same node formats its singular text on one render and its plural text on the next:
    each time the variables resolved are the %(name)s placeholders of THAT text."""
    env = mk_env(c, autoescape=VBool(z3.BoolVal(False)))
    ctx = mk_ctx(c, env)
    sb = c.obj(TAG + ":MessageBlock", "singular", text=const("%(count)s item for %(who)s"))
    pb = c.obj(TAG + ":MessageBlock", "plural", text=const("%(count)s items in %(where)s"))

    def resolve(eng, st, a, k):
        st.log.append(("resolve", concrete(a[1])[1]))
        return [(st, VStr(z3.String(f"value_of_{concrete(a[1])[1]}_{len(st.log)}")))]
    c.summary(CTX + ".resolve", resolve)

    def entry(eng, cc, func):
        outs = []
        for s0, node in eng.instantiate(cc.st, VClass(TAG, "TranslateNode"), [NONE], dict(args=cc.st.alloc(HDict(items={})), singular_block=sb, plural_block=pb)):
            if isinstance(node, Raised):
                outs.append((s0, node))
                continue
            for s1, r1 in eng.run(func, s0, [ctx, const("%(count)s item for %(who)s")], {}, self_val=node):
                if isinstance(r1, Raised):
                    outs.append((s1, r1))
                    continue
                n1 = len(s1.log)
                for s2, r2 in eng.run(func, s1, [ctx, const("%(count)s items in %(where)s")], {}, self_val=node):
                    if isinstance(r2, Raised):
                        outs.append((s2, r2))
                        continue
                    first = [e[1] for e in s2.log[:n1] if e[0] == "resolve"]
                    second = [e[1] for e in s2.log[n1:] if e[0] == "resolve"]
                    vals = {}
                    for k_, e in enumerate(s2.log):
                        if e[0] == "resolve":
                            vals[(e[1], k_ < n1)] = z3.String(f"value_of_{e[1]}_{k_ + 1}")
                    ok_names = first == ["count", "who"] and second == ["count", "where"]
                    if not ok_names:
                        outs.append((s2, Ret(VBool(z3.BoolVal(False)))))
                        continue
                    want1 = z3.Concat(vals[("count", True)], z3.StringVal(" item for "), vals[("who", True)])
                    want2 = z3.Concat(vals[("count", False)], z3.StringVal(" items in "), vals[("where", False)])
                    outs.append((s2, Ret(VBool(z3.And(unbox_s(r1.val if isinstance(r1, Ret) else r1) == want1, unbox_s(r2.val if isinstance(r2, Ret) else r2) == want2)))))
        return outs
    c.entry = entry
    c.ensures("each-render-replaces-exactly-the-placeholders-of-its-own-message-text-and-nothing-else", lambda r: r.value.t)
    c.raises()
    c.assume_note("printf formatting of a constant format made of literal text, %% and %(name)s is computed exactly ('%(k)s' % d == str(d[k]))")
    c.replay("code", code=REPLAY_TAGCOUNT)


REPLAY_TAG_PERCENT = r'''
def run(m):
    import asyncio
    from liquid import Environment
    env = Environment(extra=True)
    bad = []
    for src, data, want in (("{% translate %}100%{{ x }}{% endtranslate %}", {"x": "X"}, "100%X"), ("{% translate %}50%{{ x }}%{{ y }}%%{% endtranslate %}", {"x": "X", "y": "Y"}, "50%X%Y%%"),
                            ("{% translate %}Hi {{ some-name }}!{% endtranslate %}", {"some-name": "N"}, "Hi N!"), ("{% translate %}{{ ['a b'] }}{% endtranslate %}", {"a b": "N"}, "N"),
                            ("{% translate %}%(x)s %s {{ x }}{% endtranslate %}", {"x": "X"}, "%(x)s %s X")):
        t = env.from_string(src)
        for a in (False, True):
            try:
                got = asyncio.run(t.render_async(**data)) if a else t.render(**data)
            except Exception as e:
                got = "raised " + type(e).__name__
            if got != want:
                bad.append((src, got, want))
    return {"violated": bool(bad), "observed": bad[:4], "witness": "translate-tag-placeholder-not-resolved"}
'''


@contract(TAG + ":TranslateNode._format_message", prop="C26", name="translate-tag._format_message[any message text: every placeholder printf-style formatting finds is resolved from the context]")
def tag_format_any(c):
    """For ANY wellformed message text (what validate_message_block builds, lemma below; a
    catalogue may reorder or drop placeholders), formatting never fails for want of a
    variable: the mapping given to `%` resolves whatever key is asked for."""
    c.model_int_str_limit()
    env = mk_env(c, autoescape=VBool(z3.BoolVal(False)), undefined=VClass("liquid.undefined", "Undefined"))
    ctx = mk_ctx(c, env)
    text = c.str("message_text")
    c.requires(z3.Function("printf_wellformed", S, B)(text.t), "the message text is a wellformed printf format (literal text with doubled %, %(name)s placeholders)")
    self = c.obj(TAG + ":TranslateNode", "node", token=NONE)

    def tls(eng, st, a, k):
        outs = [(st.fork(), VStr(z3.String(f"liquid_string_{len(st.log)}")))]
        outs.append((st.fork(), Raised(VExc("LiquidValueError", (const("int too large"),)))))
        st.log.append(("to_liquid_string",))
        return outs
    c.summary("liquid.stringify:to_liquid_string", tls)   # its own contract (C02): a string or a LiquidValueError
    c.call(ctx, text, self_val=self)
    c.raises("LiquidError")

    def post(r):
        pf = [e for e in r.st.log if e[0] == "printf"]
        if len(pf) != 1 or not isinstance(pf[0][1], VStr) or not z3.eq(z3.simplify(pf[0][1].t), text.t):
            return z3.BoolVal(False)
        return z3.BoolVal(True)
    c.ensures("the-message-text-itself-is-formatted-exactly-once", post)
    c.assume_note("CPython printf-style formatting of a wellformed format with a mapping calls mapping[key] for each %(key)s and nothing else; executed for one arbitrary key")
    c.replay("code", code=REPLAY_TAG_PERCENT)


# ---- lemma: the message text the tag builds is literal text with every % doubled and one
# ---- %(name)s per variable, name free of parentheses -- the wellformed format assumed above

for _shape in (("text",), ("var",), ("text", "var"), ("var", "text"), ("text", "var", "text"), ("var", "var"), ("text", "var", "text", "var")):
    def _mkvalidate(shape):
        @contract(TAG + ":TranslateTag.validate_message_block", prop="C26", name=f"translate-tag.validate_message_block[nodes={'+'.join(shape)}: text with % doubled, one %(name)s per variable]")
        def vb(c):
            env = mk_env(c)
            nodes, parts, names = [], [], []
            for i, kind in enumerate(shape):
                if kind == "text":
                    t = c.str(f"text{i}")
                    nodes.append(c.obj("liquid.builtin.content:ContentNode", f"content{i}", text=t, token=NONE))
                    parts.append(z3.Function("str_replace_all", S, S, S, S)(t.t, z3.StringVal("%"), z3.StringVal("%%")))
                else:
                    v = c.str(f"name{i}")
                    names.append(v)
                    path = c.obj("liquid.builtin.expressions.path:Path", f"path{i}", path=c.st.alloc(HList(items=[v])), token=NONE)
                    fe = c.obj("liquid.builtin.expressions.filtered:FilteredExpression", f"expr{i}", left=path, filters=c.st.alloc(HList(items=[])), token=NONE)
                    nodes.append(c.obj("liquid.builtin.output:OutputNode", f"output{i}", expression=fe, token=NONE))
                    parts += [z3.StringVal("%("), v.t, z3.StringVal(")s")]
            block = c.obj("liquid.ast:BlockNode", "block", nodes=c.st.alloc(HList(items=nodes)), token=NONE, blank=c.bool("blank"))
            self = c.obj(TAG + ":TranslateTag", "tag", env=env, trim_messages=VBool(z3.BoolVal(False)))
            c.opaque_str_classes |= {"Path"}
            c.call(block, self_val=self)
            paren = z3.Or(*[z3.Or(z3.Contains(v.t, z3.StringVal("(")), z3.Contains(v.t, z3.StringVal(")"))) for v in names]) if names else z3.BoolVal(False)
            want = parts[0] if len(parts) == 1 else z3.Concat(*parts)

            def post(r):
                h = r.st.deref(r.value) if isinstance(r.value, VRef) else None
                if not isinstance(h, HObj) or h.cls[1] != "MessageBlock":
                    return z3.BoolVal(False)
                vs = r.engine.concrete_items(r.st, h.fields["vars"])
                ok_vars = vs is not None and len(vs) == len(names) and all(isinstance(a, VStr) and z3.eq(a.t, b.t) for a, b in zip(vs, names))
                return z3.And(z3.Not(paren), unbox_s(h.fields["text"]) == want, z3.BoolVal(bool(ok_vars and h.fields["block"] == block)))
            c.ensures("text-is-the-pieces-in-order(%-doubled-in-literal-text,%(name)s-per-variable)-and-no-name-has-a-parenthesis", post)
            c.raises("TranslationSyntaxError")
            c.ensures_exc("rejected-only-for-a-name-with-a-parenthesis", lambda r: paren)
            c.assume_note("trim_messages off (whitespace normalisation is the regular expression re_whitespace, covered by the bounded sweep)")
            c.replay("code", code=REPLAY_TAG_PERCENT)
    _mkvalidate(_shape)


@contract(TAG + ":TranslateNode.resolve_count", prop="C26")
def resolve_count(c):
    """the count used to choose the form is the integer value of the count argument, 1 when
    there is none or it is not a number -- for any value, without raising"""
    std_globals(c)
    v = c.any("count_argument")
    for a in ("__int__", "__index__", "__trunc__"):
        c.requires(z3.Not(z3.And(U.is_ref(v.t), z3.Function("ref_hasattr$" + a, U, B)(v.t))), "JSON-like data")
    given = c.bool("count_argument_given")
    self = c.obj(TAG + ":TranslateNode", "node", message_count_var=const("count"))

    def entry(eng, cc, func):
        outs = []
        for s, g in eng.branch(cc.st, given.t):
            scope = s.alloc(HDict(items={"count": v} if g else {}))
            outs.extend(eng.run(func, s, [c.any("context"), scope], {}, self_val=self))
        return outs
    c.entry = entry
    c.ensures("an-integer-count-is-itself-and-no-count-means-1", lambda r: z3.And(U.is_int(box(r.value)), z3.Implies(z3.And(given.t, U.is_int(v.t)), box(r.value) == v.t), z3.Implies(z3.Not(given.t), box(r.value) == U.int(1))))
    c.raises("LiquidValueError")  # a digit string beyond the interpreter's int-to-str limit (a Liquid error, C02)
    c.replay("code", code=REPLAY_TAGCOUNT)


# ---- the tag's render methods (sync and async): the form is chosen with the count that
# ---- resolve_count computed from the tag's arguments, the text formatted is the text gettext
# ---- chose, and it is formatted with the arguments in scope

for _sfx in ("", "_async"):
    def _mkrender(sfx):
        @contract(TAG + ":TranslateNode.render_to_output" + sfx, prop="C26", name=f"translate-tag.render_to_output{sfx}[count -> resolve_count -> gettext -> _format_message -> output]")
        def tr(c):
            EXP = "liquid.expression:Expression"
            env = mk_env(c)
            c.requires(c.st.deref(env).fields["context_depth_limit"].t >= 8, "context depth limit not reached")
            ctx = mk_ctx(c, env)
            cv = c.any("count_argument_value")
            kw = c.obj("liquid.builtin.expressions.arguments:KeywordArgument", "count_arg", name=const("count"), value=c.obj(EXP, "count_expr", __value__=cv, token=NONE), token=NONE)
            args = c.st.alloc(HDict(items={"count": kw}))
            sb = c.obj(TAG + ":MessageBlock", "singular", text=c.str("singular_text"))
            pb = c.obj(TAG + ":MessageBlock", "plural", text=c.str("plural_text"))
            self = c.obj(TAG + ":TranslateNode", "node", args=args, singular_block=sb, plural_block=pb, token=NONE)
            tr_obj = c.obj("gettext:NullTranslations", "translations")
            evx = lambda eng, st, a, k: [(st, st.deref(a[0]).fields["__value__"])]  # noqa: E731
            c.summary(EXP + ".evaluate", evx)
            c.summary(EXP + ".evaluate_async", evx)
            c.summary(TAG + ":TranslateNode.resolve_translations", lambda eng, st, a, k: [(st, tr_obj)])
            counted = z3.Int("resolved_count")
            chosen = z3.String("chosen_text")
            formatted = z3.String("formatted_text")

            def rc(eng, st, a, k):
                ns = a[2] if len(a) > 2 else k.get("block_scope")
                h = st.deref(ns) if isinstance(ns, VRef) else None
                ok = isinstance(h, HDict) and h.items is not None and h.items.get("count") == cv
                st.log.append(("resolve_count", ok))
                return [(st, VInt(counted))]
            c.summary(TAG + ":TranslateNode.resolve_count", rc)
            c.summary(TAG + ":TranslateNode.resolve_message_context", lambda eng, st, a, k: [(st, NONE)])

            def gt(eng, st, a, k):
                cnt = k.get("count", a[2] if len(a) > 2 else None)
                st.log.append(("gettext", a[1] == tr_obj, cnt))
                return [(st, VStr(chosen))]
            c.summary(TAG + ":TranslateNode.gettext", gt)

            def fm(eng, st, a, k):
                scope = st.deref(st.deref(st.deref(a[1]).fields["scope"]).fields["_maps"]).items if a[1] == ctx else None
                inner = st.deref(scope[0]) if scope else None
                st.log.append(("format", a[2], isinstance(inner, HDict) and inner.items is not None and inner.items.get("count") == cv))
                return [(st, VStr(formatted))]
            c.summary(TAG + ":TranslateNode._format_message", fm)
            buf = c.obj("io:StringIO", "buffer", __text__=c.str("out"))
            out0 = c.st.deref(buf).fields["__text__"].t
            c.call(ctx, buf, self_val=self)

            def post(r):
                log = r.st.log
                rcs = [e for e in log if e[0] == "resolve_count"]
                gts = [e for e in log if e[0] == "gettext"]
                fms = [e for e in log if e[0] == "format"]
                if len(rcs) != 1 or len(gts) != 1 or len(fms) != 1 or not rcs[0][1] or not gts[0][1] or not fms[0][2]:
                    return z3.BoolVal(False)
                cnt = gts[0][2]
                cnt_ok = isinstance(cnt, VInt) and z3.eq(cnt.t, counted)
                txt = fms[0][1]
                txt_ok = isinstance(txt, VStr) and z3.eq(txt.t, chosen)
                if not (cnt_ok and txt_ok):
                    return z3.BoolVal(False)
                return r.st.deref(buf).fields["__text__"].t == z3.Concat(out0, formatted)
            c.ensures("the-count-given-to-gettext-is-resolve_counts-and-its-text-is-what-is-formatted(with-the-arguments-in-scope)-and-written", post)
            c.raises()
            c.assume_note("resolve_count, gettext and _format_message are summarised by fresh values here; their own contracts are the obligations above")
            c.replay("code", code=REPLAY_TAGCOUNT_ASYNC)
    _mkrender(_sfx)


REPLAY_TAGCOUNT_ASYNC = r'''
def run(m):
    import asyncio
    from liquid import Environment
    env = Environment(extra=True)
    t = env.from_string("{% translate count: n %}{{ count }} item{% plural %}{{ count }} items{% endtranslate %}")
    bad = []
    for n, want in ((0, "0 items"), (1, "1 item"), (2, "2 items"), ("1", "1 item"), (1.5, "1.5 item"), ("x", "x item"), (None, " item")):
        for a in (False, True):
            try:
                got = asyncio.run(t.render_async(n=n)) if a else t.render(n=n)
            except Exception as e:
                got = type(e).__name__
            if got != want:
                bad.append((n, a, got, want))
    return {"violated": bool(bad), "observed": bad[:4], "witness": "plural-choice-differs-from-the-resolved-count"}
'''


REPLAY_TAGCOUNT = r'''
def run(m):
    from liquid import Environment
    env = Environment(extra=True)
    t = env.from_string("{% translate count: n %}{{ count }} item{% plural %}{{ count }} items{% endtranslate %}")
    out = []
    for n in (0, 1, 2, None, [1]):
        try:
            out.append(t.render(n=n))
        except Exception as e:
            out.append(type(e).__name__)
    return {"violated": out != ["0 items", "1 item", "2 items", " item", "1 item"], "observed": out}
'''


@structural("C26", "substitution-shape")
def substitution_shape():
    """format_message of the filters substitutes ONLY regex matches of %(name)s (re_vars.sub)
    and never applies printf formatting to the whole message; the tag doubles every % of its
    literal text before printf formatting."""
    obs = []
    mod = load.get_module(TR)
    cls = mod.classes["BaseTranslateFilter"]
    fm = load._last_def(cls.body, "format_message")
    src = ast.unparse(fm)
    uses_mod = any(isinstance(n, ast.BinOp) and isinstance(n.op, ast.Mod) for n in ast.walk(fm))
    uses_sub = "self.re_vars.sub(" in src
    obs.append(flow.ob("filter-format_message-substitutes-placeholders-only", uses_sub and not uses_mod, "re_vars.sub used: %s; printf %% used: %s" % (uses_sub, uses_mod), replay_schema="code", replay_extra={"code": REPLAY}))
    pat = flow.const_eval(mod, [s.value for s in cls.body if isinstance(s, ast.Assign) and flow.dotted(s.targets[0]) == "re_vars"][0].args[0])
    obs.append(flow.ob("placeholder-pattern-is-%(name)s-not-preceded-by-%", pat == r"(?<!%)%\((\w+)\)s", repr(pat), replay_schema="code", replay_extra={"code": REPLAY}))
    # every filter formats through format_message
    calls = [n for n in ast.walk(mod.tree) if isinstance(n, ast.Call) and flow.call_name(n) == "format_message"]
    obs.append(flow.ob("all-five-filters-use-format_message", len(calls) >= 5, f"{len(calls)} call sites"))
    tag = load.get_module("liquid.extra.tags.translate_tag")
    tsrc = tag.source
    obs.append(flow.ob("tag-doubles-percent-in-literal-text", 'node.text.replace("%", "%%")' in tsrc, "validate_message_block escapes % in text nodes before printf formatting", replay_schema="code", replay_extra={"code": REPLAY}))
    return obs


not_covered("C26", "real message catalogues", "the regular-expression semantics of re_vars are those of the real `re` module run on CONSTANT message texts (format_message and the tag's _format_message are proved for two constant texts with arbitrary values); arbitrary message texts are decided by the bounded exhaustive check against a reference substitution")

bounded("C26", "bounded/C26.py")

REPLAY = r'''
def run(m):
    from bounded.C26 import run as brun
    r = brun("quick", 0)
    v = r["violations"]
    return {"failing": bool(v), "witness": v[0]["witness"] if v else "messages", "call": v[0]["source"] if v else "message sweep", "result": v[0]["got"] if v else "ok"}
'''


# ---- RenderContext.resolve (summarised by a fresh value in the contracts above): the scope's
# ---- binding of the name, the environment's undefined for a missing name -- never KeyError

@contract(CTX + ".resolve", prop="C26", name="RenderContext.resolve[the binding in scope, or an undefined; a missing name never raises]")
def ctx_resolve(c):
    env = mk_env(c, undefined=VClass("liquid.undefined", "Undefined"))
    ctx = mk_ctx(c, env)
    name = c.str("name")
    bound = c.bool("name_is_bound")
    val = c.any("bound_value")

    def getitem(eng, st, a, k):
        outs = []
        for s, b in eng.branch(st, bound.t):
            outs.append((s, val) if b else eng.raised(s, "KeyError", "name"))
        return outs
    c.summary("liquid.utils.chain_map:ReadOnlyChainMap.__getitem__", getitem)   # C14: KeyError iff unbound in every map
    c.call(name, self_val=ctx)
    c.raises()

    def post(r):
        v = r.value
        if isinstance(v, VRef) and isinstance(r.st.deref(v), HObj) and r.st.deref(v).cls[1] == "Undefined":
            return z3.Not(bound.t)
        return z3.And(bound.t, box(v) == val.t)
    c.ensures("bound-name-gives-its-binding-and-a-missing-name-gives-the-environments-undefined", post)
    c.replay("code", code=REPLAY_TAG_PERCENT)
