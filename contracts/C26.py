"""C26 -- null translations leave message text intact."""
import ast

import z3

from contracts.common import *  # noqa: F403
from pyvc import flow, load
from pyvc.contract import contract
from pyvc.run import bounded, not_covered, structural
from pyvc.state import *  # noqa: F403
from pyvc.u import *  # noqa: F403

TR = "liquid.extra.filters.translate"


@contract(TR + ":_count", prop="C26")
def count(c):
    """the plural form is chosen by n = int(count); booleans and None mean 'no count'"""
    v = c.any("val")
    for a in ("__int__", "__index__", "__trunc__"):
        c.requires(z3.Not(z3.And(U.is_ref(v.t), z3.Function("ref_hasattr$" + a, U, B)(v.t))), "JSON-like data")
    c.call(v)
    t = v.t
    c.ensures("integers-including-0-and-1-are-their-own-count", lambda r: z3.Implies(U.is_int(t), box(r.value) == t))
    c.ensures("none-and-booleans-mean-no-count", lambda r: z3.Implies(z3.Or(U.is_none(t), U.is_bool(t)), box(r.value) == U.none))
    c.ensures("numeric-strings-are-converted", lambda r: z3.Implies(z3.And(U.is_str(t), str_is_int(U.s(t))), box(r.value) == U.int(int_of_str(U.s(t)))))
    c.ensures("anything-else-is-no-count", lambda r: z3.Implies(z3.And(U.is_str(t), z3.Not(str_is_int(U.s(t)))), box(r.value) == U.none))
    c.raises()
    c.replay("code", code=REPLAY)


@structural("C26", "substitution-shape")
def substitution_shape():
    """format_message of the filters substitutes ONLY regex matches of %(name)s (re_vars.sub)
    and never applies printf formatting to the whole message; the tag doubles every % of its
    literal text before printf formatting."""
    obs = []
    mod = load.get_module(TR)
    cls = mod.classes["BaseTranslateFilter"]
    fm = load._last_def(cls.body, "format_message")
    src = ast.unparse(fm)
    uses_mod = any(isinstance(n, ast.BinOp) and isinstance(n.op, ast.Mod) for n in ast.walk(fm))
    uses_sub = "self.re_vars.sub(" in src
    obs.append(flow.ob("filter-format_message-substitutes-placeholders-only", uses_sub and not uses_mod, "re_vars.sub used: %s; printf %% used: %s" % (uses_sub, uses_mod), replay_schema="code", replay_extra={"code": REPLAY}))
    pat = flow.const_eval(mod, [s.value for s in cls.body if isinstance(s, ast.Assign) and flow.dotted(s.targets[0]) == "re_vars"][0].args[0])
    obs.append(flow.ob("placeholder-pattern-is-%(name)s-not-preceded-by-%", pat == r"(?<!%)%\((\w+)\)s", repr(pat), replay_schema="code", replay_extra={"code": REPLAY}))
    # every filter formats through format_message
    calls = [n for n in ast.walk(mod.tree) if isinstance(n, ast.Call) and flow.call_name(n) == "format_message"]
    obs.append(flow.ob("all-five-filters-use-format_message", len(calls) >= 5, f"{len(calls)} call sites"))
    tag = load.get_module("liquid.extra.tags.translate_tag")
    tsrc = tag.source
    obs.append(flow.ob("tag-doubles-percent-in-literal-text", 'node.text.replace("%", "%%")' in tsrc, "validate_message_block escapes % in text nodes before printf formatting", replay_schema="code", replay_extra={"code": REPLAY}))
    return obs


not_covered("C26", "real message catalogues", "the regular-expression semantics of re_vars (trusted: DESIGN 3); the substitution result itself is decided by the bounded exhaustive check against a reference substitution, not by proof")

bounded("C26", "bounded/C26.py")

REPLAY = r'''
def run(m):
    from bounded.C26 import run as brun
    r = brun("quick", 0)
    v = r["violations"]
    return {"failing": bool(v), "witness": v[0]["witness"] if v else "messages", "call": v[0]["source"] if v else "message sweep", "result": v[0]["got"] if v else "ok"}
'''
