"""C04 -- serialising a template back to source preserves its meaning.

Proved for all field values: the conditions the grammar accepted by the real parser puts on
each printer (DESIGN 4 C04): string literals are quoted with a quote that does not occur in
them and carry no escapes; the logical printer parenthesises exactly as the Pratt loop of
`parse_boolean_primitive` regroups (lemma L-Pratt, decision table over the real classes and
the real PRECEDENCES); each tag printer opens and closes with its own tag's name, prints
every field its render method uses through that field's own printer, and prints child blocks
with nothing in between.  The round trip itself (regular-expression lexers) is a bounded
run-time contract."""
import ast
import itertools

import z3

from contracts.C19 import node_classes, self_fields
from contracts.common import *  # noqa: F403
from pyvc import flow, load
from pyvc.contract import contract
from pyvc.run import bounded, not_covered, structural
from pyvc.state import *  # noqa: F403
from pyvc.u import *  # noqa: F403

PRIM = "liquid.builtin.expressions.primitive"
LOGICAL = "liquid.builtin.expressions.logical"


@contract(PRIM + ":StringLiteral.__str__", prop="C04")
def string_literal(c):
    v = c.str("value")
    sq, dq = z3.StringVal("'"), z3.StringVal('"')
    c.requires(z3.Not(z3.And(z3.Contains(v.t, sq), z3.Contains(v.t, dq))), "a parsed string literal cannot contain the quote that delimits it (the string token has no escapes), so it never contains both kinds")
    self = c.obj(PRIM + ":StringLiteral", "lit", value=v, token=NONE)
    c.call(self_val=self)

    def post(r):
        res = r.value.t
        return z3.Or(z3.And(res == z3.Concat(sq, v.t, sq), z3.Not(z3.Contains(v.t, sq))), z3.And(res == z3.Concat(dq, v.t, dq), z3.Not(z3.Contains(v.t, dq))))
    c.ensures("quoted-with-a-quote-that-does-not-occur-in-the-value-and-no-escapes", post)
    c.cover("value-with-a-single-quote", lambda r: z3.Contains(v.t, sq))
    c.cover("value-with-a-backslash", lambda r: z3.Contains(v.t, z3.StringVal("\\")))
    c.raises()
    c.replay("code", code=REPLAY_STRING)


def expression_keywords():
    """the keyword table of the real expression tokenizer (liquid.builtin.expressions._tokenize._keywords),
    const-evaluated from the source on every run"""
    mod = load.get_module("liquid.builtin.expressions._tokenize")
    for st_ in mod.tree.body:
        if isinstance(st_, ast.Assign) and flow.dotted(st_.targets[0]) == "_keywords":
            return {flow.const_eval(mod, e) for e in st_.value.args[0].elts}
    raise AssertionError("_keywords not found")


@contract("liquid.builtin.expressions.path:Path.__str__", prop="C04")
def path_str(c):
    """a string segment is printed `.name` only when it is a property name, otherwise bracketed
    and quoted with a quote that does not occur in it, without escapes -- root segment included"""
    root, seg = c.str("root_segment"), c.str("segment")
    sq, dq = z3.StringVal("'"), z3.StringVal('"')
    for v in (root, seg):
        c.requires(z3.Not(z3.And(z3.Contains(v.t, sq), z3.Contains(v.t, dq))), "a parsed quoted segment never contains both kinds of quote")
    idx = c.int("index_segment")
    self = c.obj("liquid.builtin.expressions.path:Path", "path", path=c.st.alloc(HList(items=[root, seg, idx])), token=NONE)
    c.call(self_val=self)
    word = z3.Function("re_fullmatch$RE_PROPERTY", S, B)

    def quoted(v):
        q = z3.If(z3.Contains(v, sq), dq, sq)
        return z3.Concat(z3.StringVal("["), q, v, q, z3.StringVal("]"))

    # a bare segment is read back by the expression tokenizer, which turns a WORD that is in its
    # keyword table into a keyword token (`a.empty`, `true`): only non-keywords may be printed bare
    kws = sorted(expression_keywords())
    assert len(kws) >= 10, kws

    def bare(v):
        return z3.And(word(v), *[v != z3.StringVal(k) for k in kws])

    def post(r):
        res = r.value.t
        want_root = z3.If(bare(root.t), root.t, quoted(root.t))
        want_seg = z3.If(bare(seg.t), z3.Concat(z3.StringVal("."), seg.t), quoted(seg.t))
        n = idx.t
        want_idx = z3.Concat(z3.StringVal("["), z3.If(n < 0, z3.Concat(z3.StringVal("-"), z3.IntToStr(-n)), z3.IntToStr(n)), z3.StringVal("]"))
        return res == z3.Concat(want_root, want_seg, want_idx)
    c.ensures("segments-print-as-property-or-quoted-bracket-without-escapes", post)
    c.raises()
    c.assume_note("RE_PROPERTY.fullmatch(s) is an uninterpreted predicate 'is a property name'; that property names lex as one WORD token is checked by the bounded round trip")
    c.replay("code", code=REPLAY_PATH)


REPLAY_PATH = r'''
def run(m):
    from liquid import Environment
    env = Environment()
    d = {"back\\slash": 1, "a b": 2}
    bad = []
    for src in ("{{ site['back\\slash'] }}", "{{ ['a b'] }}", "{{ site['a b'] }}", "{{ site['empty'] }}", "{{ ['true'] }}", "{{ site['with'].x }}", "{{ ['not'] }}"):
        try:
            t = env.from_string(src); t2 = env.from_string(str(t))
            data = dict(site=dict(d, empty="E", **{"with": {"x": "W"}}), **{"a b": 3, "true": "T", "not": "N"})
            if t.render(**data) != t2.render(**data) or str(t2) != str(t):
                bad.append((src, str(t)))
        except Exception as e:
            bad.append((src, type(e).__name__))
    return {"violated": bool(bad), "observed": bad}
'''



# ---------------------------------------------------------------- logical printer vs the parser


def parser_table():
    mod = load.get_module(LOGICAL)
    table = flow.const_eval(mod, mod.consts["PRECEDENCES"])
    tok = load.get_module("liquid.token")
    T = lambda n: flow.const_eval(tok, tok.consts[n])  # noqa: E731
    return mod, table, T


CLASSES = {"EqExpression": ("TOKEN_EQ", "=="), "NeExpression": ("TOKEN_NE", "!="), "LeExpression": ("TOKEN_LE", "<="), "GeExpression": ("TOKEN_GE", ">="), "LtExpression": ("TOKEN_LT", "<"),
           "GtExpression": ("TOKEN_GT", ">"), "ContainsExpression": ("TOKEN_CONTAINS", "contains"), "LogicalAndExpression": ("TOKEN_AND", "and"), "LogicalOrExpression": ("TOKEN_OR", "or")}


def reparse(text, table, T):
    """the grouping `parse_boolean_primitive` gives to `text` (L-Pratt: the loop continues while
    the next operator's precedence is >= the current one; the right operand is parsed at the
    operator's own precedence; `not` parses its operand at the lowest precedence)"""
    import re
    toks = re.findall(r"\(|\)|==|!=|<=|>=|<|>|\w+", text)
    sym = {s: T(t) for _c, (t, s) in CLASSES.items()}
    pos = [0]
    LOWEST = min(table.values())

    def peek():
        return toks[pos[0]] if pos[0] < len(toks) else None

    def prim(prec):
        t = peek()
        pos[0] += 1
        if t == "(":
            left = prim(LOWEST)
            assert peek() == ")", text
            pos[0] += 1
            left = ("group", left)
        elif t == "not":
            left = ("not", prim(LOWEST))
        else:
            left = t
        while True:
            t = peek()
            if t is None or t == ")" or table.get(sym.get(t), LOWEST) < prec:
                break
            if t not in sym:
                return left
            pos[0] += 1
            left = (t, left, prim(table[sym[t]]))
        return left

    tree = prim(LOWEST)
    assert pos[0] == len(toks), (text, toks, pos)

    def strip(n):
        if isinstance(n, tuple) and n[0] == "group":
            return strip(n[1])
        if isinstance(n, tuple):
            return (n[0],) + tuple(strip(x) for x in n[1:])
        return n
    return strip(tree)


def shapes():
    """every (parent class, child class, side) combination, under `not`, at the top and as
    the non-last operand: the domain of the printer's parenthesisation decision"""
    reps = ["LogicalAndExpression", "LogicalOrExpression", "EqExpression", "ContainsExpression", "LtExpression"]
    kids = reps + ["not", "atom"]
    out = []
    atoms = itertools.cycle(["a", "b", "c", "d", "e", "f"])

    def mk(kind, depth=0):
        if kind == "atom":
            return next(atoms)
        if kind == "not":
            return ("not", next(atoms) if depth else mk("LogicalAndExpression", 1))
        return (CLASSES[kind][1], next(atoms), next(atoms))
    for p in reps:
        for l, r in itertools.product(kids, kids):
            out.append((CLASSES[p][1], mk(l, 1) if l != "not" else ("not", next(atoms)), mk(r, 1) if r != "not" else ("not", next(atoms))))
    for k in kids:
        out.append(("not", mk(k, 1) if k != "not" else ("not", next(atoms))))
    # depth 3: a decision made at the right edge of a left operand, and under a group
    more = []
    for t in out:   # every base shape (the first 60 only left `x == (not y) and z` unexamined: seeded change C04-2)
        more.append(("and", t, "z"))
        more.append(("or", "z", t))
        more.append(("==", t, "z"))
        more.append(("not", t))
    # every comparison class once (operator symbols)
    for cname, (_t, s) in CLASSES.items():
        more.append((s, "a", "b"))
    return out + more


def build(c, tree):
    """heap objects of the real expression classes for a tree of atoms"""
    by_sym = {s: cname for cname, (_t, s) in CLASSES.items()}
    if isinstance(tree, str):
        return c.obj("liquid.builtin.expressions.path:Path", "atom_" + tree, path=c.st.alloc(HList(items=[const(tree)])), token=NONE)
    if tree[0] == "not":
        return c.obj(LOGICAL + ":LogicalNotExpression", "not", right=build(c, tree[1]), token=NONE)
    return c.obj(LOGICAL + ":" + by_sym[tree[0]], by_sym[tree[0]], left=build(c, tree[1]), right=build(c, tree[2]), token=NONE)


def _bool_contract(i, tree):
    @contract(LOGICAL + ":BooleanExpression.__str__", prop="C04", name=f"BooleanExpression.__str__[shape-{i}]")
    def be(c):
        _mod, table, T = parser_table()
        self = c.obj(LOGICAL + ":BooleanExpression", "cond", expression=build(c, tree), token=NONE)
        c.call(self_val=self)

        def post(r):
            v = r.value
            text = z3.simplify(v.t)
            if not z3.is_string_value(text):
                return z3.BoolVal(False)
            try:
                got = reparse(text.as_string(), table, T)
            except (AssertionError, IndexError, KeyError):
                return z3.BoolVal(False)
            return z3.BoolVal(got == tree)
        c.ensures("the-printed-condition-regroups-to-the-same-tree-under-the-parsers-precedences", post)
        c.raises()
        c.assume_note("lemma L-Pratt (contracts/C04_lemma.md): the parser's grouping is the function `reparse`, written from parse_boolean_primitive/parse_infix_expression with the real PRECEDENCES table; the printer's decision depends only on (class, parent class, side, right-edge), all of which are enumerated")
        c.replay("code", code=REPLAY_BOOL, tree=repr(tree))


for _i, _t in enumerate(shapes()):
    _bool_contract(_i, _t)


# ---------------------------------------------------------------- tag printers


OPEN_NAMES = {"ConditionalBlockNode": "elsif", "MultiExpressionBlockNode": "when", "InlineCommentNode": "#"}


def _returns(fn):
    return [n.value for n in ast.walk(fn) if isinstance(n, ast.Return) and n.value is not None]


def _flat(e):
    """[('lit', text) | ('expr', source)] of an f-string / concatenation"""
    if isinstance(e, ast.JoinedStr):
        out = []
        for v in e.values:
            out += _flat(v)
        return out
    if isinstance(e, ast.Constant) and isinstance(e.value, str):
        return [("lit", e.value)]
    if isinstance(e, ast.FormattedValue):
        return [("expr", ast.unparse(e.value))]
    if isinstance(e, ast.BinOp) and isinstance(e.op, ast.Add):
        return _flat(e.left) + _flat(e.right)
    return [("expr", ast.unparse(e))]


@structural("C04", "tag-printers")
def tag_printers():
    obs = []
    tags = {}
    for m, cname, _cn in flow.tag_classes():
        try:
            nc = flow.class_const_src(m, cname, "node_class") if hasattr(flow, "class_const_src") else None
        except Exception:  # noqa: BLE001
            nc = None
        tags[(m, cname)] = nc
    # node class -> (tag name, end name) through Tag.node_class
    link = {}
    for m, cname, cn in flow.tag_classes():
        node_class = None
        for mm, cc in load.mro(m, cname):
            if not mm.startswith("liquid"):
                continue
            cdef = load.get_module(mm).classes.get(cc)
            for st in (cdef.body if cdef else []):
                if isinstance(st, ast.Assign) and isinstance(st.targets[0], ast.Name) and st.targets[0].id == "node_class" and node_class is None:
                    node_class = flow.dotted(st.value)
        try:
            name = flow.class_const(m, cname, "name")
        except ValueError:
            continue
        try:
            end = flow.class_const(m, cname, "end")
        except ValueError:
            end = None
        if node_class and isinstance(name, str):
            link.setdefault(node_class, (name, end if isinstance(end, str) else None))
    n = 0
    for m, cname, cnode in node_classes():
        if not m.startswith("liquid.builtin") and m != "liquid.ast":
            continue
        fn = load._last_def(cnode.body, "__str__")
        renders = [s for s in cnode.body if isinstance(s, (ast.FunctionDef, ast.AsyncFunctionDef)) and s.name in ("render_to_output", "render_to_output_async")]
        if fn is None or not renders:
            continue
        n += 1
        rets = _returns(fn)
        final = _flat(rets[-1]) if rets else []
        text = "".join(x[1] if x[0] == "lit" else "\x00" for x in final)
        where = f"{cname}.__str__"
        # 1. opens (and, for block tags, closes) with its own tag's name
        name, end = link.get(cname, (OPEN_NAMES.get(cname), None))
        if name and name not in ("content", "output", "statement") and cname not in ("ContentNode", "OutputNode", "BlockNode", "IllegalNode"):
            opens = text.startswith("{% " + name + " ") or text.startswith("{% " + name + "\x00") or text.startswith("{% " + name + " %}")
            obs.append(flow.ob(f"{where}:opens-with-its-own-tag-name({name})", opens, text[:60].replace("\x00", "<expr>"), replay_schema="code", replay_extra={"code": REPLAY_TAGS}))
            if end:
                obs.append(flow.ob(f"{where}:closes-with-its-own-end-tag({end})", text.endswith("{% " + end + " %}"), text[-40:].replace("\x00", "<expr>"), replay_schema="code", replay_extra={"code": REPLAY_TAGS}))
        # 2. every field the render method evaluates or renders is printed through its own printer
        used = set()
        for r in renders:
            used |= self_fields(r, ("evaluate", "evaluate_async", "render", "render_async"))
        printed = {a.attr for a in ast.walk(fn) if isinstance(a, ast.Attribute) and isinstance(a.value, ast.Name) and a.value.id == "self"}
        missing = sorted(used - printed)
        if cname == "LiquidNode":
            missing = []  # prints the tag's own source text (liquid_token) by design; its block was parsed from it
        obs.append(flow.ob(f"{where}:prints-every-field-its-render-method-uses", not missing, f"render uses {sorted(used)}, printer mentions {sorted(printed)}", replay_schema="code", replay_extra={"code": REPLAY_TAGS}))
        # 3. ... and not through the raw token text (LiquidNode keeps its source by design)
        raw = [flow.dotted(a)[:50] for a in ast.walk(fn) if isinstance(a, ast.Attribute) and a.attr == "value" and isinstance(a.value, ast.Attribute) and a.value.attr.endswith("token")]
        if cname != "LiquidNode":
            obs.append(flow.ob(f"{where}:prints-expressions-not-token-text", not raw, str(raw), replay_schema="code", replay_extra={"code": REPLAY_TAGS}))
        # 4. no stray braces around child blocks or expressions (only {% %} / {{ }} markup)
        lits = [x[1] for x in final if x[0] == "lit"]
        braces = [l for l in lits if "{ " in l.replace("{{ ", "").replace("{% ", "") or " }" in l.replace(" }}", "").replace(" %}", "")]
        obs.append(flow.ob(f"{where}:adds-nothing-but-tag-markup-around-its-fields", not braces, str(braces)[:120], replay_schema="code", replay_extra={"code": REPLAY_TAGS}))
    obs.append(flow.ob("node-printers-found", n >= 8, f"{n} node classes with __str__ and a render method"))
    return obs


@structural("C04", "expression-printers")
def expression_printers():
    """filtered / ternary / loop / argument expressions: every field `evaluate` uses is printed,
    and each optional part is printed under its own presence test only (the parser accepts
    them independently: `x if c || f` has tail filters and no alternative)"""
    obs = []
    n = 0
    for m in ("liquid.builtin.expressions.filtered", "liquid.builtin.expressions.loop", "liquid.builtin.expressions.arguments"):
        mod = load.get_module(m)
        for cname, cnode in mod.classes.items():
            fn = load._last_def(cnode.body, "__str__")
            evs = [x for x in cnode.body if isinstance(x, (ast.FunctionDef, ast.AsyncFunctionDef)) and x.name in ("evaluate", "evaluate_async", "evaluate_args", "evaluate_args_async")]
            if fn is None or not evs:
                continue
            n += 1
            used = set()
            for e in evs:
                used |= self_fields(e, ("evaluate", "evaluate_async"))
            printed = {a.attr for a in ast.walk(fn) if isinstance(a, ast.Attribute) and isinstance(a.value, ast.Name) and a.value.id == "self"}
            obs.append(flow.ob(f"{cname}.__str__:prints-every-field-evaluate-uses", used <= printed, f"evaluate uses {sorted(used)}, printer mentions {sorted(printed)}", replay_schema="code", replay_extra={"code": REPLAY_TAGS}))
            pm = flow.parents(fn)
            nested = []
            for iff in [x for x in ast.walk(fn) if isinstance(x, ast.If)]:
                outer = [o for o in flow.enclosing(pm, iff, (ast.If,)) if o is not iff]
                if outer:
                    nested.append(f"if {flow.dotted(iff.test)[:30]} inside if {flow.dotted(outer[0].test)[:30]}")
            obs.append(flow.ob(f"{cname}.__str__:optional-parts-are-printed-under-their-own-presence-test", not nested, str(nested), replay_schema="code", replay_extra={"code": REPLAY_TAGS}))
    obs.append(flow.ob("expression-printers-found", n >= 2, f"{n}"))
    return obs


not_covered("C04", "that the printed text lexes back into the same tokens (regular-expression lexers are not modelled): bounded round-trip check",
            "the filter/argument printers (bounded round-trip check only)", "non-standard (extra) tags",
            "string literals containing both quote characters cannot come from a parsed template (excluded by precondition)")

bounded("C04", "bounded/C04.py")

REPLAY_STRING = r'''
def run(m):
    from liquid import Environment
    src = "{{ 'back\\slash' }}{{ 'new\nline' }}{{ \"it's\" }}"
    env = Environment()
    s = str(env.from_string(src))
    ok = env.from_string(s).render() == env.from_string(src).render()
    return {"violated": not ok, "observed": s}
'''

REPLAY_BOOL = r'''
def run(m):
    from bounded.C04 import Env, DATA, outcome
    env = Env()
    bad = []
    for src in ("(a and b) or c", "(not a) or b", "not a or b", "(a or b) == c", "a == (b or c)", "(a and b) and c", "a and (not b) and c", "(a == b) == c"):
        t0 = env.from_string("{% if " + src + " %}T{% else %}F{% endif %}")
        try:
            t1 = env.from_string(str(t0))
        except Exception as e:
            bad.append((src, str(t0), type(e).__name__))
            continue
        if any(outcome(t0, d) != outcome(t1, d) for d in DATA):
            bad.append((src, str(t0)))
    return {"violated": bool(bad), "observed": bad}
'''

REPLAY_TAGS = r'''
def run(m):
    from bounded.C04 import run as brun
    r = brun("quick", 0)
    v = [x for x in r["violations"] if "nil-literal" not in x["witness"]]
    return {"violated": bool(v), "observed": [(x["source"], x.get("serialised")) for x in v[:3]]}
'''


# ---------------------------------------------------------------- block containers print their
# ---------------------------------------------------------------- children in source order
# (the parser builds the child lists in source order and the render methods walk them in list
# order, so a printer that regroups or reorders them changes which block runs)

AST_M = "liquid.ast"
CASE_M = "liquid.builtin.tags.case_tag"
IF_M = "liquid.builtin.tags.if_tag"
UNLESS_M = "liquid.builtin.tags.unless_tag"

REPLAY_ORDER = r'''
def run(m):
    from liquid import Environment
    env = Environment()
    bad = []
    for src, data in (("{% case x %}{% else %}D{% when 1 %}one{% endcase %}", {"x": 1}),
                      ("{% case x %}{% when 2 %}two{% else %}D{% when 1 %}one{% else %}E{% endcase %}", {"x": 1}),
                      ("{% if a %}A{% elsif b %}B{% elsif c %}C{% else %}D{% endif %}", {"b": True, "c": True}),
                      ("{% unless a %}A{% elsif b %}B{% elsif c %}C{% else %}D{% endunless %}", {"a": True, "c": True, "b": True}),
                      ("a{{ x }}b{% assign x = 2 %}{{ x }}", {"x": 1})):
        t = env.from_string(src)
        t2 = env.from_string(str(t))
        if t.render(**data) != t2.render(**data):
            bad.append((src, str(t)))
    return {"violated": bool(bad), "observed": bad[:3], "witness": "children-reordered"}
'''


def _opaque_child(c, cls, name, **fields):
    o = c.obj(cls, name, token=NONE, **fields)
    return o


def _s(c, ref):
    """the (opaque) text a child prints as"""
    return z3.Function("str_of_ref", I, I, S)(z3.IntVal(ref.addr), z3.IntVal(c.st.world))


def _order_contract(target, label, mk):
    @contract(target, prop="C04", name=f"{target.split(':')[1]}[{label}: children are printed in source order]")
    def oc(c):
        c.opaque_str_classes |= {"BlockNode", "ConditionalBlockNode", "MultiExpressionBlockNode", "Expression", "Node", "BooleanExpression", "LoopExpression"}
        self, expected = mk(c)
        c.call(self_val=self)
        c.raises()
        c.ensures("text-is-the-tag-markup-around-the-children-in-list-order", lambda r: r.value.t == z3.Concat(*expected) if len(expected) > 1 else r.value.t == expected[0])
        c.assume_note("children print through their own printers (opaque texts here; their own contracts are the other C04 obligations)")
        c.replay("code", code=REPLAY_ORDER)


def _case_orders():
    for n in range(0, 4):
        for kinds in itertools.product(("when", "else"), repeat=n):
            def mk(c, kinds=kinds):
                expr = c.obj("liquid.expression:Expression", "case_expr", token=NONE)
                blocks, parts = [], [z3.StringVal("{% case "), None, z3.StringVal(" %}\n")]
                for i, k in enumerate(kinds):
                    if k == "when":
                        b = c.obj(AST_M + ":MultiExpressionBlockNode", f"when{i}", token=NONE, blank=c.bool(f"blank{i}"), block=c.obj(AST_M + ":BlockNode", f"when{i}_block", token=NONE, blank=c.bool(f"wblank{i}")))
                        blocks.append(b)
                        parts.append(("s", b))
                    else:
                        b = c.obj(AST_M + ":BlockNode", f"else{i}", token=NONE, blank=c.bool(f"blank{i}"))
                        blocks.append(b)
                        parts.append(z3.StringVal("{% else %}"))
                        parts.append(("s", b))
                parts.append(z3.StringVal("{% endcase %}"))
                self = c.obj(CASE_M + ":CaseNode", "case", token=NONE, expression=expr, blocks=c.st.alloc(HList(items=blocks)), blank=c.bool("blank"))
                parts[1] = ("s", expr)
                return self, [(_s(c, p[1]) if isinstance(p, tuple) else p) for p in parts]
            _order_contract(CASE_M + ":CaseNode.__str__", "blocks=" + (",".join(kinds) or "none"), mk)


_case_orders()


def _if_orders(mod, cname, open_, close):
    for n in range(0, 4):
        for has_default in (False, True):
            def mk(c, n=n, has_default=has_default):
                cond = c.obj(LOGICAL + ":BooleanExpression", "condition", token=NONE)
                cons = c.obj(AST_M + ":BlockNode", "consequence", token=NONE, blank=c.bool("cblank"))
                alts = [c.obj(AST_M + ":ConditionalBlockNode", f"alt{i}", token=NONE, blank=c.bool(f"ablank{i}")) for i in range(n)]
                default = c.obj(AST_M + ":BlockNode", "default", token=NONE, blank=c.bool("dblank")) if has_default else NONE
                self = c.obj(mod + ":" + cname, "node", token=NONE, condition=cond, consequence=cons, alternatives=c.st.alloc(HList(items=alts)), default=default, blank=c.bool("blank"))
                parts = [z3.StringVal("{% " + open_ + " "), _s(c, cond), z3.StringVal(" %}"), _s(c, cons)] + [_s(c, a) for a in alts]
                if has_default:
                    parts += [z3.StringVal("{% else %}"), _s(c, default)]
                parts.append(z3.StringVal("{% " + close + " %}"))
                return self, parts
            _order_contract(f"{mod}:{cname}.__str__", f"alternatives={n},else={'yes' if has_default else 'no'}", mk)


_if_orders(IF_M, "IfNode", "if", "endif")
_if_orders(UNLESS_M, "UnlessNode", "unless", "endunless")


def _block_orders():
    for n in range(0, 4):
        def mk(c, n=n):
            kids = [c.obj(AST_M + ":Node", f"child{i}", token=NONE, blank=c.bool(f"kblank{i}")) for i in range(n)]
            self = c.obj(AST_M + ":BlockNode", "block", token=NONE, nodes=c.st.alloc(HList(items=kids)), blank=c.bool("blank"))
            return self, ([_s(c, k) for k in kids] or [z3.StringVal("")])
        _order_contract(AST_M + ":BlockNode.__str__", f"children={n}", mk)


_block_orders()


# ---- literal text: printed as it is, and inside a raw block exactly when it contains an opening
# ---- delimiter (`{{` or `{%`, closed or not: an unterminated one would start markup when re-parsed)

REPLAY_CONTENT_RAW = r'''
def run(m):
    from liquid import Environment
    env = Environment()
    bad = []
    for src in ("{% raw %}{{ {% endraw %}user.name }}", "{% raw %}{% {% endraw %}if x %}", "a{% raw %}{{ x }}{% endraw %}b", "{% raw %}}} %}{% endraw %}"):
        try:
            t = env.from_string(src)
            t2 = env.from_string(str(t))
            if t.render(user={"name": "N"}, x=1) != t2.render(user={"name": "N"}, x=1) or str(t2) != str(t):
                bad.append((src, str(t)))
        except Exception as e:
            bad.append((src, type(e).__name__))
    return {"violated": bool(bad), "observed": bad[:3], "witness": "raw-text-with-an-unterminated-delimiter"}
'''


@contract("liquid.builtin.content:ContentNode.__str__", prop="C04", name="ContentNode.__str__[any text: raw-wrapped exactly when it contains an opening delimiter]")
def content_str(c):
    text = c.str("text")
    self = c.obj("liquid.builtin.content:ContentNode", "content", text=text, token=NONE)
    c.call(self_val=self)
    has = z3.Or(z3.Contains(text.t, z3.StringVal("{{")), z3.Contains(text.t, z3.StringVal("{%")))
    c.ensures("verbatim-or-wrapped-in-a-raw-block", lambda r: r.value.t == z3.If(has, z3.Concat(z3.StringVal("{% raw %}"), text.t, z3.StringVal("{% endraw %}")), text.t))
    c.raises()
    c.replay("code", code=REPLAY_CONTENT_RAW)


# ---- for / tablerow: the else block is printed whenever there is one (also a blank one: it may
# ---- assign or capture), after the loop body

FOR_M = "liquid.builtin.tags.for_tag"

REPLAY_FOR_ELSE = r'''
def run(m):
    from liquid import Environment
    env = Environment()
    bad = []
    for src in ("{% for x in xs %}{{ x }}{% else %}{% assign seen = 'none' %}{% endfor %}[{{ seen }}]", "{% for x in xs %}{{ x }}{% else %} {% endfor %}|"):
        t = env.from_string(src)
        t2 = env.from_string(str(t))
        if t.render(xs=[]) != t2.render(xs=[]) or str(t2) != str(t):
            bad.append((src, str(t)))
    return {"violated": bool(bad), "observed": bad, "witness": "blank-else-block-not-printed"}
'''

for _has_default in (False, True):
    def _mkfor(has_default):
        def mk(c):
            expr = c.obj("liquid.builtin.expressions.loop:LoopExpression", "loop_expression", token=NONE)
            block = c.obj(AST_M + ":BlockNode", "body", token=NONE, blank=c.bool("body_blank"))
            default = c.obj(AST_M + ":BlockNode", "else_block", token=NONE, blank=c.bool("else_blank")) if has_default else NONE
            self = c.obj(FOR_M + ":ForNode", "for", token=NONE, expression=expr, block=block, default=default, blank=c.bool("blank"))
            parts = [z3.StringVal("{% for "), _s(c, expr), z3.StringVal(" %}"), _s(c, block)]
            if has_default:
                parts += [z3.StringVal("{% else %}"), _s(c, default)]
            parts.append(z3.StringVal("{% endfor %}"))
            return self, parts
        _order_contract(FOR_M + ":ForNode.__str__", f"else={'yes(blank or not)' if has_default else 'no'}", mk)
    _mkfor(_has_default)
