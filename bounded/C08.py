"""Bounded stand-in for C08: for a template family and each resource limit, sweep the limit
from 0 to beyond the resource used: every run either equals the unlimited render or raises a
ResourceLimitError; success is monotone in the limit."""
from bounded.common import main
from liquid import DictLoader, Environment
from liquid.exceptions import LiquidError, ResourceLimitError

PARTIALS = {"p": "p{{ i }}{% assign w = 'partial' %}", "deep": "{% if d %}{% include 'deep2' %}{% endif %}x", "deep2": "{% render 'p' %}y"}
TEMPLATES = [
    "héllo {{ x }} wörld", "{% for i in (1..4) %}{% for j in (1..3) %}{{ i }}{{ j }}{% endfor %}{% endfor %}", "{% for i in (1..3) %}{% render 'p', i: i %}{% endfor %}",
    "{% assign a = 'xxxx' %}{% assign b = a | append: a %}{% capture c %}{{ b }}{{ b }}{% endcapture %}{{ c | size }}", "{% include 'deep' %}", "{% tablerow i in (1..5) cols:2 %}{{ i }}{% endtablerow %}",
    "{% if x %}{% if x %}{% if x %}{% for i in (1..2) %}{% unless y %}{{ i }}{% endunless %}{% endfor %}{% endif %}{% endif %}{% endif %}", "{% capture z %}{% for i in (1..3) %}é{% endfor %}{% endcapture %}{{ z }}{{ z }}",
    "{% ifchanged %}{{ x }}{% endifchanged %}{% render 'p', i: 2 %}{% include 'deep' %}",
    "{% if x %}{% capture g %}cap{{ x }}{% endcapture %}{% endif %}{{ g }}", "{% for i in (1..2) %}{% ifchanged %}{% capture h %}{{ i }}{% endcapture %}{% endifchanged %}{% endfor %}{{ h }}",
    "line1\r\nline2\rline3",
]
DATA = dict(x="žž", y=False, d=True)
LIMITS = {"loop_iteration_limit": range(0, 16), "output_stream_limit": range(0, 40), "local_namespace_limit": list(range(0, 400, 13)) + [1], "context_depth_limit": range(0, 12), "block_nesting_limit": range(0, 8)}


def render(limit_name, value, src):
    cls = type("E", (Environment,), {limit_name: value} if value is not None else {})
    env = cls(loader=DictLoader(PARTIALS))
    try:
        return "ok", env.from_string(src).render(**DATA)
    except ResourceLimitError as e:
        return "limit", type(e).__name__
    except LiquidError as e:
        return "liquid", type(e).__name__
    except Exception as e:  # noqa: BLE001
        return "other", f"{type(e).__name__}: {e}"


def run(tier, seed):
    viol = []
    cases = 0
    for src in TEMPLATES:
        base = render("loop_iteration_limit", None, src)
        if base[0] != "ok":
            continue
        for lname, values in LIMITS.items():
            succeeded_at = None
            for v in sorted(values):
                cases += 1
                k, out = render(lname, v, src)
                if k == "ok" and (k, out) != base:
                    viol.append({"id": "output-altered", "witness": f"{lname}:altered", "source": src, "got": f"{lname}={v}: {out!r} != {base[1]!r}", "limit": lname, "value": v})
                if k in ("liquid", "other"):
                    viol.append({"id": "wrong-error", "witness": f"{lname}:{out}", "source": src, "got": f"{lname}={v}: {out}", "limit": lname, "value": v})
                if k == "ok" and succeeded_at is None:
                    succeeded_at = v
                if k != "ok" and succeeded_at is not None:
                    viol.append({"id": "not-monotone", "witness": f"{lname}:L1=={succeeded_at}", "source": src, "got": f"succeeds at {succeeded_at} but fails at larger {v} ({out})", "limit": lname, "value": v})
                    succeeded_at = None
    return {"bound": f"{len(TEMPLATES)} templates x sweeps of 5 limits (0..16 / 0..40 / 0..400 step 13 / 0..12 / 0..8)", "cases": cases, "distinct": cases, "violations": viol, "sample": {"source": TEMPLATES[1], "limit": "loop_iteration_limit"}}


def replay(case):
    return {"failing": True, "call": case["source"], "result": case["got"]}


if __name__ == "__main__":
    main(run, replay)
