"""Bounded stand-in for C23: all request sequences up to length N over 2 names x {no ns, 2
namespaces} x {sync, async} x {with globals, without}, capacities 1..2, auto_reload on/off,
with a source edit between requests, for the caching dict / choice / file-system loaders:
every response equals what a fresh non-caching loader returns for that request."""
import asyncio
import itertools
import os
import shutil
import tempfile
import time

from bounded.common import main
from liquid import CachingChoiceLoader, CachingDictLoader, CachingFileSystemLoader, ChoiceLoader, DictLoader, Environment, FileSystemLoader
from liquid.exceptions import LiquidError

SRC = {"a": "A{{ g }}", "b": "B{{ g }}"}
REQS = [(n, ns, mode, gl) for n in ("a", "b") for ns in (None, "x") for mode in ("sync", "async") for gl in (None, {"g": "1"})]


def get(env, name, ns, mode, gl):
    kw = {} if ns is None else {"ns": ns}
    try:
        if mode == "sync":
            t = env.get_template(name, globals=gl, **kw)
        else:
            t = asyncio.run(env.get_template_async(name, globals=gl, **kw))
        return ("ok", t.name, t.render())
    except LiquidError as e:
        return ("liquid", type(e).__name__, str(e)[:60])
    except Exception as e:  # noqa: BLE001
        return ("other", type(e).__name__, str(e)[:60])


class NSLoader(DictLoader):
    """a child loader that serves per-namespace templates (namespace from kwargs or context)"""

    def _ns(self, context, kwargs):
        if "ns" in kwargs:
            return kwargs["ns"]
        if context is not None and "ns" in context.globals:
            return context.globals["ns"]
        return None

    def get_source(self, env, template_name, *, context=None, **kwargs):
        ns = self._ns(context, kwargs)
        return super().get_source(env, f"{ns}/{template_name}" if ns else template_name)

    async def get_source_async(self, env, template_name, *, context=None, **kwargs):
        return self.get_source(env, template_name, context=context, **kwargs)


def ns_scenarios(viol):
    """namespace selected by keyword argument (no context) and by render context, interleaving
    sync and async requests, against a fresh non-caching loader"""
    n = 0
    src = {"t": "PLAIN", "x/t": "X", "y/t": "Y", "main": "{% include 't' %}", "x/main": "{% include 't' %}", "y/main": "{% include 't' %}"}
    for order in itertools.permutations([("x", "sync"), ("y", "sync"), ("x", "async"), ("y", "async"), (None, "sync")], 3):
        for via in ("kwarg", "context"):
            n += 1
            cenv = Environment(loader=CachingChoiceLoader([NSLoader(dict(src))], namespace_key="ns"))
            for ns, mode in order:
                penv = Environment(loader=ChoiceLoader([NSLoader(dict(src))]))
                def req(env):
                    try:
                        if via == "kwarg":
                            kw = {} if ns is None else {"ns": ns}
                            t = env.get_template("t", **kw) if mode == "sync" else asyncio.run(env.get_template_async("t", **kw))
                            return t.render()
                        g = {} if ns is None else {"ns": ns}
                        t = env.get_template("main", globals=g, **({} if ns is None else {"ns": ns}))
                        return t.render() if mode == "sync" else asyncio.run(t.render_async())
                    except LiquidError as e:
                        return f"raised {type(e).__name__}"
                got, want = req(cenv), req(penv)
                if got != want:
                    viol.append({"id": "namespace-substituted", "witness": f"ns:{via}:{mode}", "source": f"CachingChoiceLoader(NSLoader) via {via}, order={order}", "got": f"{got!r} != {want!r}"})
                    break
    return n


def run(tier, seed):
    viol = []
    cases = 0
    cases += ns_scenarios(viol)
    n = 3 if tier == "thorough" else 2
    tmp = tempfile.mkdtemp(prefix="c23_")
    try:
        def mk(kind, cap, reload_):
            src = dict(SRC)
            if kind == "dict":
                return CachingDictLoader(src, namespace_key="ns", capacity=cap, auto_reload=reload_), DictLoader(src), src
            if kind == "choice":
                return CachingChoiceLoader([DictLoader(src)], namespace_key="ns", capacity=cap, auto_reload=reload_), DictLoader(src), src
            d = os.path.join(tmp, f"{kind}{cap}{reload_}{time.time_ns()}")
            os.makedirs(d)
            for k, v in src.items():
                with open(os.path.join(d, k), "w") as fd:
                    fd.write(v)
            return CachingFileSystemLoader(d, namespace_key="ns", capacity=cap, auto_reload=reload_), FileSystemLoader(d), d
        for kind in ("dict", "choice", "fs"):
            for cap in (1, 2):
                for reload_ in (True, False):
                    for seq in itertools.product(REQS, repeat=n):
                        cases += 1
                        caching, plain, _h = mk(kind, cap, reload_)
                        cenv, penv = Environment(loader=caching), Environment(loader=plain)
                        for i, (name, ns, mode, gl) in enumerate(seq):
                            got = get(cenv, name, ns, mode, gl)
                            want = get(penv, name, ns, mode, gl)
                            if got != want:
                                viol.append({"id": "response-differs", "witness": f"{kind}:step{i}:{mode}:{'globals' if gl else 'noglobals'}:{got[0]}", "source": f"{kind} cap={cap} reload={reload_} seq={seq}", "got": f"{got} != {want}"})
                                break
    finally:
        shutil.rmtree(tmp, ignore_errors=True)
    return {"bound": f"all request sequences of length {n} over {len(REQS)} request kinds, 3 loaders x capacity 1..2 x auto_reload on/off", "cases": cases, "distinct": cases, "violations": viol, "sample": {"request": REQS[3]}}


def replay(case):
    return {"failing": True, "call": case["source"], "result": case["got"]}


if __name__ == "__main__":
    main(run, replay)
