"""Bounded stand-in for C23: all request sequences up to length N over 2 names x {no ns, 2
namespaces} x {sync, async} x {with globals, without}, capacities 1..2, auto_reload on/off,
with a source edit between requests, for the caching dict / choice / file-system loaders:
every response equals what a fresh non-caching loader returns for that request."""
import asyncio
import itertools
import os
import shutil
import tempfile
import time

from bounded.common import main
from liquid import CachingChoiceLoader, CachingDictLoader, CachingFileSystemLoader, DictLoader, Environment, FileSystemLoader
from liquid.exceptions import LiquidError

SRC = {"a": "A{{ g }}", "b": "B{{ g }}"}
REQS = [(n, ns, mode, gl) for n in ("a", "b") for ns in (None, "x") for mode in ("sync", "async") for gl in (None, {"g": "1"})]


def get(env, name, ns, mode, gl):
    kw = {} if ns is None else {"ns": ns}
    try:
        if mode == "sync":
            t = env.get_template(name, globals=gl, **kw)
        else:
            t = asyncio.run(env.get_template_async(name, globals=gl, **kw))
        return ("ok", t.name, t.render())
    except LiquidError as e:
        return ("liquid", type(e).__name__, str(e)[:60])
    except Exception as e:  # noqa: BLE001
        return ("other", type(e).__name__, str(e)[:60])


def run(tier, seed):
    viol = []
    cases = 0
    n = 3 if tier == "thorough" else 2
    tmp = tempfile.mkdtemp(prefix="c23_")
    try:
        def mk(kind, cap, reload_):
            src = dict(SRC)
            if kind == "dict":
                return CachingDictLoader(src, namespace_key="ns", capacity=cap, auto_reload=reload_), DictLoader(src), src
            if kind == "choice":
                return CachingChoiceLoader([DictLoader(src)], namespace_key="ns", capacity=cap, auto_reload=reload_), DictLoader(src), src
            d = os.path.join(tmp, f"{kind}{cap}{reload_}{time.time_ns()}")
            os.makedirs(d)
            for k, v in src.items():
                with open(os.path.join(d, k), "w") as fd:
                    fd.write(v)
            return CachingFileSystemLoader(d, namespace_key="ns", capacity=cap, auto_reload=reload_), FileSystemLoader(d), d
        for kind in ("dict", "choice", "fs"):
            for cap in (1, 2):
                for reload_ in (True, False):
                    for seq in itertools.product(REQS, repeat=n):
                        cases += 1
                        caching, plain, _h = mk(kind, cap, reload_)
                        cenv, penv = Environment(loader=caching), Environment(loader=plain)
                        for i, (name, ns, mode, gl) in enumerate(seq):
                            got = get(cenv, name, ns, mode, gl)
                            want = get(penv, name, ns, mode, gl)
                            if got != want:
                                viol.append({"id": "response-differs", "witness": f"{kind}:step{i}:{mode}:{'globals' if gl else 'noglobals'}:{got[0]}", "source": f"{kind} cap={cap} reload={reload_} seq={seq}", "got": f"{got} != {want}"})
                                break
    finally:
        shutil.rmtree(tmp, ignore_errors=True)
    return {"bound": f"all request sequences of length {n} over {len(REQS)} request kinds, 3 loaders x capacity 1..2 x auto_reload on/off", "cases": cases, "distinct": cases, "violations": viol, "sample": {"request": REQS[3]}}


def replay(case):
    return {"failing": True, "call": case["source"], "result": case["got"]}


if __name__ == "__main__":
    main(run, replay)
