"""Helpers for bounded stand-ins (run under /venv/bin/python).  A stand-in is a run-time
contract check of the real code over an enumerated input space with a stated bound; it is
reported under coverage.bounded and never counted as a discharged obligation."""
import argparse
import json
import sys
import time


def main(run, replay=None):
    ap = argparse.ArgumentParser()
    ap.add_argument("--tier", default="quick")
    ap.add_argument("--seed", type=int, default=0)
    ap.add_argument("--replay", action="store_true")
    a, _rest = ap.parse_known_args()
    if a.replay:
        req = json.load(sys.stdin)
        case = req.get("case") or {}
        out = replay(case) if replay else {"failing": None}
        print(json.dumps(out, default=repr))
        return
    t0 = time.time()
    res = run(a.tier, a.seed)
    res.setdefault("violations", [])
    seen = set()
    uniq = []
    for v in res["violations"]:
        key = (v.get("id"), v.get("witness"))
        if key not in seen:
            seen.add(key)
            uniq.append(v)
    res["violations"] = uniq[:400]
    res["wall_s"] = round(time.time() - t0, 2)
    print(json.dumps(res, default=repr))
