"""Bounded stand-in for C06: run-time contract 'a completed render never executed a block
while the product of enclosing lengths exceeded N; a nest whose lengths multiply to more
than N raises LoopIterationLimitError' over all nests up to depth D of the repeating
constructs, lengths from a small set, limits around the product."""
import itertools

from bounded.common import main
from liquid import DictLoader, Environment
from liquid.exceptions import LoopIterationLimitError

KINDS = ["for", "tablerow", "render_for", "include_for", "for_render", "for_include", "macro_in_for"]


def nest(kinds, lens, depth=0):
    if not kinds:
        return "x", {}
    inner, parts = nest(kinds[1:], lens[1:], depth + 1)
    k, n = kinds[0], lens[0]
    name = f"p{depth}"
    parts = dict(parts)
    arr = ",".join(str(i) for i in range(n))
    pre = "{% assign arr" + str(depth) + " = '" + arr + "' | split: ',' %}"
    if k == "for":
        return "{% for x in (1.." + str(n) + ") %}" + inner + "{% endfor %}", parts
    if k == "tablerow":
        return "{% tablerow x in (1.." + str(n) + ") cols:2 %}" + inner + "{% endtablerow %}", parts
    parts[name] = inner
    if k == "render_for":
        return pre + "{% render '" + name + "' for arr" + str(depth) + " as it %}", parts
    if k == "include_for":
        return pre + "{% include '" + name + "' for arr" + str(depth) + " %}", parts
    if k == "for_render":
        return "{% for x in (1.." + str(n) + ") %}{% render '" + name + "' %}{% endfor %}", parts
    if k == "for_include":
        return "{% for x in (1.." + str(n) + ") %}{% include '" + name + "' %}{% endfor %}", parts
    if k == "macro_in_for":
        del parts[name]
        return "{% macro m" + str(depth) + " %}" + inner + "{% endmacro %}{% for x in (1.." + str(n) + ") %}{% call m" + str(depth) + " %}{% endfor %}", parts
    raise ValueError(k)


def check_case(kinds, lens, limit):
    from liquid.extra import add_tags_and_filters  # noqa: F401
    from liquid.extra import MacroTag, CallTag
    src, parts = nest(list(kinds), list(lens))
    prod = 1
    for n in lens:
        prod *= n

    class E(Environment):
        loop_iteration_limit = limit

    env = E(loader=DictLoader(parts))
    env.add_tag(MacroTag)
    env.add_tag(CallTag)
    try:
        out = env.from_string(src).render()
        ok = prod <= limit
        res = f"completed ({out.count('x')} block executions)"
    except LoopIterationLimitError:
        ok = prod > limit
        res = "LoopIterationLimitError"
    except Exception as e:  # noqa: BLE001
        ok = True  # other errors are not C06's business
        res = f"{type(e).__name__}"
    return ok, src, res


def run(tier, seed):
    depth = 3 if tier == "thorough" else 2
    lensets = [(2, 3), (3, 4), (5, 5)] if depth == 2 else [(2, 3, 2), (3, 2, 4)]
    cases = 0
    viol = []
    seen = set()
    for kinds in itertools.product(KINDS, repeat=depth):
        for lens in lensets:
            prod = 1
            for n in lens:
                prod *= n
            for limit in (prod - 1, prod, 1):
                cases += 1
                seen.add((kinds, lens, limit))
                ok, src, res = check_case(kinds, lens, limit)
                if not ok:
                    viol.append({"id": "nest-over-limit", "witness": "nest:" + "/".join(kinds), "kinds": kinds, "lens": lens, "limit": limit, "source": src, "result": res})
    return {"bound": f"all nests of depth {depth} over {KINDS}, lengths {lensets}, limits product-1/product/1", "cases": cases, "distinct": len(seen), "violations": viol,
            "sample": {"kinds": KINDS[:2], "lens": lensets[0]}}


def replay(case):
    ok, src, res = check_case(case["kinds"], case["lens"], case["limit"])
    return {"failing": not ok, "call": src, "result": res}


if __name__ == "__main__":
    main(run, replay)
