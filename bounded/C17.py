"""Bounded stand-in for C17: (1) every filter/tag template leaves its (deep-copied) render
data unchanged and renders the same output twice; (2) for all ordered pairs of (template,
data) renders in one process/environment, the second output equals its output in a fresh
environment, including values that compare equal but differ in type or time zone."""
import copy
import datetime
import itertools

from bounded.common import main
from liquid import DictLoader, Environment
from liquid.exceptions import LiquidError


def data():
    tz1 = datetime.timezone(datetime.timedelta(hours=0))
    tz2 = datetime.timezone(datetime.timedelta(hours=5))
    return {
        "arr": [3, 1, 2, None, 1], "nested": [[2, 1], [3]], "recs": [{"k": "b", "v": 2}, {"k": "a", "v": 1}, {"k": "b"}], "d": {"z": 1, "a": [1, 2]}, "s": "b a  c", "one": 1, "onef": 1.0, "true": True,
        "dt1": datetime.datetime(2020, 1, 1, 12, 0, tzinfo=tz1), "dt2": datetime.datetime(2020, 1, 1, 17, 0, tzinfo=tz2), "num": "1577880000",
    }


ARRAY_FILTERS = ["reverse", "sort", "sort_natural", "uniq", "compact", "first", "last", "join: ','", "size", "concat: arr", "map: 'k'", "where: 'k', 'b'", "reject: 'k', 'b'", "sum", "sort: 'k'", "uniq: 'k'", "compact: 'v'", "slice: 1, 2", "find: 'k', 'a'", "has: 'k', 'a'", "push: 9" , "pop", "shift", "unshift: 9"]
SUBJECTS = ["arr", "nested", "recs", "d", "s"]
HISTORY = ["{{ one | date: '%Y' }}", "{{ onef | date: '%Y' }}", "{{ true | date: '%Y' }}", "{{ dt1 | date: '%H %z' }}", "{{ dt2 | date: '%H %z' }}", "{{ num | date: '%Y' }}", "{{ 'x' | date: '%Y' }}",
           "{% cycle 'a', 'b' %}", "{% increment c %}", "{% assign arr = arr | reverse %}{{ arr | first }}", "{{ one | plus: onef }}", "{{ onef | plus: one }}", "{{ true | plus: 1 }}", "{% ifchanged %}x{% endifchanged %}",
           "{% for i in arr offset: continue limit: 1 %}{{ i }}{% endfor %}", "{{ arr | sort | join: ',' }}"]


def render(env, src, d):
    try:
        return env.from_string(src).render(**d)
    except LiquidError as e:
        return f"raised {type(e).__name__}"
    except Exception as e:  # noqa: BLE001
        return f"raised non-liquid {type(e).__name__}: {e}"


def run(tier, seed):
    viol = []
    cases = 0
    from liquid.extra import add_tags_and_filters
    env = Environment(loader=DictLoader({"p": "{{ arr | reverse | first }}{% assign arr = 1 %}"}))
    add_tags_and_filters(env)
    for subj, flt in itertools.product(SUBJECTS, ARRAY_FILTERS):
        if flt.split(":")[0] not in env.filters:
            continue
        cases += 1
        d = data()
        before = copy.deepcopy(d)
        src = "{{ " + subj + " | " + flt + " }}{% for x in " + subj + " %}{{ x }}{% endfor %}"
        o1 = render(env, src, d)
        if d != before:
            viol.append({"id": "data-mutated", "witness": "mutates:" + flt.split(":")[0], "source": src, "got": "render data changed"})
        o2 = render(env, src, d)
        if o1 != o2 and "date" not in src:
            viol.append({"id": "not-repeatable", "witness": "repeat:" + flt.split(":")[0], "source": src, "got": f"{o1!r} then {o2!r}"})
    for src in ["{% include 'p' %}{{ arr | first }}", "{% render 'p', arr: arr %}{{ arr | first }}", "{% assign q = d %}{% assign x = q.a | reverse %}{{ d.a | first }}", "{% capture c %}{{ arr | sort }}{% endcapture %}{{ arr | first }}"]:
        cases += 1
        d = data()
        before = copy.deepcopy(d)
        render(env, src, d)
        if d != before:
            viol.append({"id": "data-mutated", "witness": "mutates:tag", "source": src, "got": "render data changed"})
    # history independence: the reference output of each template comes from a FRESH PROCESS
    # (a fresh Environment in this process would share module-level memo tables)
    import json
    import subprocess
    import sys
    prog = ("import json,sys\nsys.path[:0]=json.loads(sys.argv[1])\nfrom bounded.C17 import render, data, HISTORY\nfrom liquid import Environment\nfrom liquid.extra import add_tags_and_filters\n"
            "e=Environment(); add_tags_and_filters(e); print(json.dumps(render(e, HISTORY[int(sys.argv[2])], data())))")
    wants = {}
    for i, b in enumerate(HISTORY):
        p = subprocess.run([sys.executable, "-c", prog, json.dumps(sys.path), str(i)], capture_output=True, text=True)
        wants[b] = json.loads(p.stdout) if p.returncode == 0 else f"reference failed: {p.stderr[-200:]}"
    for a, b in itertools.permutations(HISTORY, 2):
        cases += 1
        want = wants[b]
        shared = env
        render(shared, a, data())
        got = render(shared, b, data())
        if got != want:
            viol.append({"id": "history-dependent", "witness": "history:" + b[:24], "source": f"{a}  THEN  {b}", "got": f"{got!r} (fresh process: {want!r})"})
    # cached templates: a request's globals must not survive into the next request
    import asyncio
    from liquid import CachingDictLoader
    for mode in ("sync", "async"):
        cenv = Environment(loader=CachingDictLoader({"t": "[{{ g }}]"}))
        def get(globs):
            if mode == "sync":
                return cenv.get_template("t", globals=globs).render()
            async def go():
                t = await cenv.get_template_async("t", globals=globs)
                return await t.render_async()
            return asyncio.run(go())
        cases += 1
        seq = [get({"g": "first"}), get(None), get({"g": "third"}), get({})]
        if seq != ["[first]", "[]", "[third]", "[]"]:
            viol.append({"id": "history-dependent", "witness": f"cached-template-globals:{mode}", "source": "get_template('t', globals=...) x4 through a caching loader", "got": repr(seq)})
    return {"bound": f"{len(SUBJECTS)} data shapes x {len(ARRAY_FILTERS)} array filters (data deep-compared, rendered twice); all ordered pairs of {len(HISTORY)} history-sensitive templates", "cases": cases, "distinct": cases, "violations": viol, "sample": {"source": HISTORY[0] + " THEN " + HISTORY[1]}}


def replay(case):
    return {"failing": True, "call": case["source"], "result": case["got"]}


if __name__ == "__main__":
    main(run, replay)
