"""Bounded stand-in for C12: run-time contract 'conditions follow the documented operator
table and and/or group from the right' over a value lattice x all binary operators, and all
and/or/not/paren trees up to depth D over 3 atoms, evaluated against a spec evaluator written
from the statement."""
import itertools
from decimal import Decimal

from bounded.common import main
from liquid import Environment
from liquid.exceptions import LiquidError, LiquidTypeError

VALUES = {
    "i0": 0, "i1": 1, "i2": 2, "ineg": -1, "f1": 1.0, "f15": 1.5, "d1": Decimal("1"), "t": True, "f": False, "nil": None,
    "s": "abc", "sa": "a", "s1": "1", "sempty": "", "sblank": "  ", "l": [1, "a"], "lempty": [], "h": {"a": 1}, "hempty": {}, "r": range(1, 3), "lnested": [[1]],
}
OPS = ["==", "!=", "<>", "<", ">", "<=", ">=", "contains"]


def num(v):
    return isinstance(v, (int, float, Decimal)) and not isinstance(v, bool)


def truthy(v):
    return not (v is None or v is False or v == "__undef__")


def s_eq(a, b):
    if isinstance(a, bool) or isinstance(b, bool):
        return isinstance(a, bool) and isinstance(b, bool) and a == b
    if a == "__undef__" or b == "__undef__":
        return (a == "__undef__" and (b == "__undef__" or b is None)) or (b == "__undef__" and a is None)
    return a == b


def s_lt(a, b):
    if a == "__undef__":
        a = None
    if b == "__undef__":
        b = None
    if isinstance(a, str) and isinstance(b, str):
        return a < b
    if isinstance(a, bool) or isinstance(b, bool):
        return False
    if num(a) and num(b):
        return a < b
    raise TypeError


def s_contains(a, b):
    if not truthy(a) or not truthy(b):
        return False
    if isinstance(a, str):
        return str(b) in a
    if isinstance(a, (list, dict, range, tuple)):
        try:
            return b in a
        except TypeError:
            return False
    raise TypeError


def spec(op, a, b):
    if op == "==":
        return s_eq(a, b)
    if op in ("!=", "<>"):
        return not s_eq(a, b)
    if op == "<":
        return s_lt(a, b)
    if op == ">":
        return s_lt(b, a)
    if op == "<=":
        return s_eq(a, b) or s_lt(a, b)
    if op == ">=":
        return s_eq(a, b) or s_lt(b, a)
    return s_contains(a, b)


def trees(depth, atoms):
    if depth == 0:
        for a in atoms:
            yield a, ("atom", a)
        return
    yield from trees(depth - 1, atoms)
    subs = list(trees(depth - 1, atoms))
    for (ls, lt), (rs, rt) in itertools.product(subs, subs):
        for op in ("and", "or"):
            # left operand printed bare: with right-grouping `a op1 b op2 c` == a op1 (b op2 c)
            yield f"{ls} {op} {rs}", ("chain", op, ls, lt, rs, rt)


def eval_chain(src, env_vals):
    """reference: and/or equal precedence, grouped from the right; `not` binds tightest"""
    toks = src.replace("(", " ( ").replace(")", " ) ").split()
    pos = 0

    def primary():
        nonlocal pos
        t = toks[pos]
        if t == "not":
            pos += 1
            return not primary()
        if t == "(":
            pos += 1
            v = expr()
            pos += 1
            return v
        pos += 1
        return truthy(env_vals[t])

    def expr():
        nonlocal pos
        left = primary()
        if pos < len(toks) and toks[pos] in ("and", "or"):
            op = toks[pos]
            pos += 1
            right = expr()
            return (left and right) if op == "and" else (left or right)
        return left

    return expr()


def run(tier, seed):
    env = Environment(logical_not_operator=True, logical_parentheses=True) if "logical_not_operator" in Environment.__init__.__code__.co_varnames else Environment()
    try:
        from liquid.future import Environment as _F  # noqa: F401
    except Exception:  # noqa: BLE001
        pass
    viol = []
    cases = 0
    names = list(VALUES)
    for op in OPS:
        for a, b in itertools.product(names + ["nosuch"], repeat=2):
            cases += 1
            src = "{% if " + a + " " + op + " " + b + " %}T{% else %}F{% endif %}"
            va = VALUES.get(a, "__undef__")
            vb = VALUES.get(b, "__undef__")
            try:
                want = "T" if spec(op, va, vb) else "F"
            except TypeError:
                want = "LiquidTypeError"
            try:
                got = env.from_string(src).render(**VALUES)
            except LiquidTypeError:
                got = "LiquidTypeError"
            except LiquidError as e:
                got = f"{type(e).__name__}"
            except Exception as e:  # noqa: BLE001
                got = f"non-liquid {type(e).__name__}: {e}"
            if got != want:
                viol.append({"id": "operator-table", "witness": f"{op}:{type(va).__name__}x{type(vb).__name__}", "source": src, "got": got, "want": want})
    # truthiness
    for a in names + ["nosuch"]:
        cases += 1
        va = VALUES.get(a, "__undef__")
        for tmpl, w in (("{% if X %}T{% else %}F{% endif %}", True), ("{% unless X %}T{% else %}F{% endunless %}", False), ("{{ X | default: 'd' }}", None)):
            if w is None:
                continue
            src = tmpl.replace("X", a)
            got = env.from_string(src).render(**VALUES)
            want = "T" if truthy(va) == w else "F"
            if got != want:
                viol.append({"id": "truthiness", "witness": f"truthy:{a}", "source": src, "got": got, "want": want})
    # empty / blank
    for a in names:
        for kw, f in (("empty", lambda v: isinstance(v, (str, list, dict)) and not v), ("blank", lambda v: (isinstance(v, str) and (not v or v.isspace())) or (isinstance(v, (list, dict)) and not v))):
            cases += 1
            src = "{% if " + a + " == " + kw + " %}T{% else %}F{% endif %}"
            got = env.from_string(src).render(**VALUES)
            want = "T" if f(VALUES[a]) else "F"
            if got != want:
                viol.append({"id": "empty-blank", "witness": f"{kw}:{a}", "source": src, "got": got, "want": want})
    # and/or grouping
    atoms = ["t", "f", "nil"]
    depth = 3 if tier == "thorough" else 2
    seen = set()
    for src, _t in trees(depth, atoms):
        if src in seen:
            continue
        seen.add(src)
        cases += 1
        want = "T" if eval_chain(src, VALUES) else "F"
        got = env.from_string("{% if " + src + " %}T{% else %}F{% endif %}").render(**VALUES)
        if got != want:
            viol.append({"id": "grouping", "witness": "grouping:" + src[:40], "source": src, "got": got, "want": want})
    return {"bound": f"{len(names)+1}^2 operand pairs x {len(OPS)} operators; truthiness/empty/blank per value; all and/or chains to depth {depth} over 3 atoms", "cases": cases, "distinct": cases, "violations": viol, "sample": {"source": "{% if i1 == f1 %}"}}


def replay(case):
    env = Environment()
    try:
        got = env.from_string(case["source"] if case["source"].startswith("{") else "{% if " + case["source"] + " %}T{% else %}F{% endif %}").render(**VALUES)
    except LiquidTypeError:
        got = "LiquidTypeError"
    except Exception as e:  # noqa: BLE001
        got = f"{type(e).__name__}"
    return {"failing": got != case["want"], "call": case["source"], "result": got}


if __name__ == "__main__":
    main(run, replay)
