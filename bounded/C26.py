"""Bounded stand-in for C26: every message assembled from <= N pieces of an alphabet with %,
%%, %s, %d, %(name)s, parentheses, whitespace and markup characters, through t / gettext /
ngettext / pgettext / npgettext and the translate tag with no catalogue: the output is the
message with exactly the %(name)s placeholders replaced (tag: whitespace runs collapsed),
plural chosen like gettext.NullTranslations (n != 1 -> plural)."""
import itertools
import re

from bounded.common import main
from liquid import Environment
from liquid.exceptions import LiquidError
from liquid.extra import add_tags_and_filters

ALPHABET = ["a", "%", "%%", "%s", "%d", "%(name)s", "%(other)s", "(", ")", " ", "  ", "<b>", "&", "%(", ")s", "100%", "\n"]
VARS = {"name": "N", "other": "O"}


def subst(msg):
    return re.sub(r"(?<!%)%\((\w+)\)s", lambda m: VARS.get(m.group(1), ""), msg)


def env():
    e = Environment()
    add_tags_and_filters(e)
    return e


def run(tier, seed):
    e = env()
    n = 3 if tier == "thorough" else 2
    viol = []
    cases = 0
    msgs = set()
    for k in range(1, n + 1):
        for seq in itertools.product(ALPHABET, repeat=k):
            msgs.add("".join(seq))
    for msg in sorted(msgs):
        want = subst(msg)
        for fname, tmpl in (("t", "{{ m | t: name: 'N', other: 'O' }}"), ("gettext", "{{ m | gettext: name: 'N', other: 'O' }}"), ("pgettext", "{{ m | pgettext: 'ctx', name: 'N', other: 'O' }}"),
                            ("ngettext-1", "{{ m | ngettext: 'PLURAL', 1, name: 'N', other: 'O' }}"), ("t-ctx", "{{ m | t: 'ctx', name: 'N', other: 'O' }}")):
            cases += 1
            try:
                got = e.from_string(tmpl).render(m=msg)
            except LiquidError as ex:
                got = f"raised {type(ex).__name__}"
            except Exception as ex:  # noqa: BLE001
                got = f"raised non-liquid {type(ex).__name__}: {ex}"
            if got != want:
                viol.append({"id": "message-altered", "witness": f"{fname}:" + ("percent" if "%" in msg else "other"), "source": tmpl + " m=" + repr(msg), "got": got, "want": want})
    # plural selection
    for count, plural in ((0, True), (1, False), (2, True), ("0", True), ("1", False), (-1, True), (True, None), (None, None), ("x", None)):
        for tmpl in ("{{ 'S' | t: plural: 'P', count: c }}", "{{ 'S' | ngettext: 'P', c }}", "{{ 'S' | npgettext: 'ctx', 'P', c }}", "{{ 'S' | t: 'ctx', plural: 'P', count: c }}"):
            cases += 1
            try:
                got = e.from_string(tmpl).render(c=count)
            except LiquidError as ex:
                got = f"raised {type(ex).__name__}"
            except Exception as ex:  # noqa: BLE001
                got = f"raised non-liquid {type(ex).__name__}: {ex}"
            if plural is None:
                ok = got in ("S", "P") or got.startswith("raised Filter") or got.startswith("raised Liquid")
                want = "S/P or a Liquid error"
                if "| t:" in tmpl:
                    ok, want = got == "S", "S (no usable count)"
            else:
                want = "P" if plural else "S"
                ok = got == want
            if not ok:
                viol.append({"id": "plural-choice", "witness": f"plural:count={count!r}", "source": tmpl + f" c={count!r}", "got": got, "want": want})
    # translate tag
    tag_msgs = ["100% sure", "a %% b", "Hello,   {{ name }}!\n  bye", "%s and %d", "50% off (today)", "<b>%</b>"]
    for m in tag_msgs:
        cases += 1
        src = "{% translate %}" + m + "{% endtranslate %}"
        want = re.sub(r"\s*\n\s*", " ", m.replace("{{ name }}", "N").strip())  # line-breaking whitespace runs collapse (trimmed messages)
        try:
            got = e.from_string(src).render(name="N")
        except Exception as ex:  # noqa: BLE001
            got = f"raised {type(ex).__name__}: {ex}"
        if got != want:
            viol.append({"id": "tag-message-altered", "witness": "tag:" + m[:12], "source": src, "got": got, "want": want})
    # every message of <= N adjacent pieces (literal text with percent signs and parentheses
    # directly next to variables, names that are not \\w+), sync and async
    import asyncio
    TAG_PIECES = [("100%", "100%"), ("%", "%"), ("%%", "%%"), ("{{ name }}", "N"), ("{{ some-name }}", "S"), ("{{ ['a b'] }}", "AB"), (" ", " "), ("(", "("), (")s", ")s"), ("%(name)s", "%(name)s"), ("a", "a"), ("%s", "%s"), ("<b>", "<b>")]
    data = {"name": "N", "some-name": "S", "a b": "AB"}
    for k in range(1, (3 if tier == "thorough" else 2) + 1):
        for seq in itertools.product(TAG_PIECES, repeat=k):
            if any(a[0].startswith("{{") and b[0].startswith("{{") for a, b in zip(seq, seq[1:])) and k > 2 and tier != "thorough":
                continue
            m = "".join(x[0] for x in seq)
            want = "".join(x[1] for x in seq).strip()
            if not m.strip():
                continue
            src = "{% translate %}" + m + "{% endtranslate %}"
            for a in (False, True):
                cases += 1
                try:
                    t = e.from_string(src)
                    got = asyncio.run(t.render_async(**data)) if a else t.render(**data)
                except Exception as ex:  # noqa: BLE001
                    got = f"raised {type(ex).__name__}: {ex}"[:80]
                if got != want:
                    viol.append({"id": "tag-message-altered", "witness": "tag-adjacent:" + ("percent-next-to-variable" if "%" in m else "name"), "source": src, "got": got, "want": want})
    # the tag chooses its form by count exactly as NullTranslations.ngettext does
    import gettext as _gt
    null = _gt.NullTranslations()
    for ctx in ("", ", context: 'c'"):
        for n_ in (0, 1, 2, -1, "0", "1", "7", 0.0, 1.0, 2.5, None, "x", [1], float("inf"), True, False):
            cases += 1
            src = "{% translate count: n" + ctx + " %}S{% plural %}P{% endtranslate %}"
            try:
                k = int(n_) if isinstance(n_, (int, float, str)) and not isinstance(n_, bool) else 1
            except (ValueError, OverflowError):
                k = 1
            if isinstance(n_, bool):
                k = int(n_)
            want = null.ngettext("S", "P", k)
            try:
                got = e.from_string(src).render(n=n_)
            except Exception as ex:  # noqa: BLE001
                got = f"raised {type(ex).__name__}"
            if got != want:
                viol.append({"id": "plural-choice", "witness": f"tag-plural:count={n_!r}", "source": src + f" n={n_!r}", "got": got, "want": want})
    return {"bound": f"all messages of <= {n} pieces over a {len(ALPHABET)}-piece alphabet x 5 filters; 9 counts x 4 plural forms; 6 tag messages; all tag messages of <= {3 if tier == "thorough" else 2} adjacent pieces over 13 pieces, sync and async; 16 tag counts x with/without message context", "cases": cases, "distinct": cases, "violations": viol, "sample": {"message": "100% %(name)s"}}


def replay(case):
    return {"failing": True, "call": case["source"], "result": case["got"]}


if __name__ == "__main__":
    main(run, replay)
