"""Bounded stand-in for C05: with autoescape on, templates over output, echo, assign,
capture, cycle, for, if, case, liquid, include/render and translate, with chains of <= 2
(thorough 3) string/array filters, rendered with data over an alphabet of HTML-special
strings: the output has no raw < > ' \" and every & begins an escape sequence; Markup /
__html__ values are output unchanged; output without special characters is the same with
autoescape off."""
import itertools
import re

from bounded.common import main
from liquid import DictLoader, Environment, Markup
from liquid.exceptions import LiquidError
from liquid.extra import add_tags_and_filters

DATA = {"u": "<b a='1' c=\"2\">&amp;&x", "lt": "<", "amp": "&", "q": "'\"", "plain": "abc", "arr": ["<i>", "&", "ok"], "ent": "&lt;", "n": 5}
FILTERS = ["upcase", "downcase", "capitalize", "escape", "escape_once", "append: u", "prepend: u", "replace: 'b', u", "replace_first: 'a', lt", "remove: 'b'", "remove: 'lt;'", "slice: 0, 2", "slice: 1, 3", "strip", "strip_html", "strip_newlines",
           "newline_to_br", "truncate: 4", "truncate: 6, u", "truncatewords: 1, u", "url_decode", "url_encode", "base64_encode | base64_decode", "default: u", "split: 'a' | join: u", "split: '' | first", "join: u", "first", "last", "reverse | join: ''",
           "concat: arr | join: ''", "map: 'x' | join: u", "sort | join: lt", "uniq | first", "compact | last", "size", "json", "t", "gettext", "date: u", "squish", "lstrip", "rstrip", "replace_last: 'a', q", "remove_first: 'a'", "remove_last: 'b'"]
FRAMES = ["{{ X }}", "{% echo X %}", "{% assign v = X %}{{ v }}", "{% capture c %}{{ X }}{% endcapture %}{{ c }}", "{% capture c %}{{ X }}{% endcapture %}{{ c | F2 }}", "{% cycle X, 'k' %}", "{% for i in arr %}{{ i | F2 }}{% endfor %}",
          "{% if true %}{{ X }}{% endif %}", "{% case 1 %}{% when 1 %}{{ X }}{% endcase %}", "{% liquid echo X %}", "{% include 'p', v: u %}", "{% render 'p', v: u %}", "{% translate v: u %}Hi {{ v }}{% endtranslate %}", "{% render 'q' for arr as it %}"]
ENTITY = re.compile(r"&(#\d+|#x[0-9a-fA-F]+|[A-Za-z][A-Za-z0-9]*);")


def bad_output(out):
    if re.search(r"[<>'\"]", out):
        return "raw-special-character"
    rest = ENTITY.sub("", out)
    if "&" in rest:
        return "entity-cut"
    return None


def run(tier, seed):
    env = Environment(autoescape=True, loader=DictLoader({"p": "[{{ v }}]", "q": "({{ it }})"}))
    add_tags_and_filters(env)
    plain = Environment(autoescape=False, loader=DictLoader({"p": "[{{ v }}]", "q": "({{ it }})"}))
    add_tags_and_filters(plain)
    viol = []
    cases = 0
    chains = [(f,) for f in FILTERS] + list(itertools.product(FILTERS, repeat=2))
    if tier != "thorough":
        chains = [(f,) for f in FILTERS] + [c for i, c in enumerate(itertools.product(FILTERS, repeat=2)) if i % 3 == seed % 3]
    subjects = ["u", "arr", "ent", "q"]
    for subj in subjects:
        for chain in chains:
            expr = subj + "".join(" | " + f for f in chain)
            src = "{{ " + expr + " }}"
            cases += 1
            try:
                out = env.from_string(src).render(**DATA)
            except LiquidError:
                continue
            except Exception as e:  # noqa: BLE001
                continue
            b = bad_output(out)
            if b:
                viol.append({"id": b, "witness": f"{b}:" + "|".join(f.split(":")[0] for f in chain), "source": src, "got": out[:80]})
    for frame in FRAMES:
        for f2 in ("upcase", "slice: 0, 3", "append: lt"):
            src = frame.replace("X", "u | append: lt").replace("F2", f2)
            cases += 1
            try:
                out = env.from_string(src).render(**DATA)
            except LiquidError:
                continue
            b = bad_output(out)
            if b:
                viol.append({"id": b, "witness": f"{b}:frame:" + frame[:20], "source": src, "got": out[:80]})
    # explicitly safe values pass unchanged; no-special output identical without autoescape
    class H:
        def __html__(self):
            return "<em>h</em>"
    for src, d, want in (("{{ m }}", {"m": Markup("<b>x</b>")}, "<b>x</b>"), ("{{ h }}", {"h": H()}, "<em>h</em>"), ("{{ m | upcase }}", {"m": Markup("<b>")}, "<B>")):
        cases += 1
        out = env.from_string(src).render(**d)
        if out != want:
            viol.append({"id": "safe-value-altered", "witness": "safe:" + src, "source": src, "got": out})
    plain_srcs = ["{{ plain | upcase | append: 'z' }}", "{% for i in (1..3) %}{{ i }}-{{ plain }}{% endfor %}", "{{ n | plus: 1 }}{{ plain | split: 'b' | join: '-' }}"]
    # tags that key state on their arguments: literal text (marked safe under autoescape) and the same
    # text from the data must be the same item (cycle groups, ifchanged, case/when, assign + compare)
    plain_srcs += ['{% cycle "abc","b" %}{% cycle plain,"b" %}{% cycle "abc","b" %}', "{% for i in (1..3) %}{% cycle plain, 'x' %}{% cycle 'abc', 'x' %}{% endfor %}",
                   "{% for i in (1..2) %}{% ifchanged %}{{ plain }}{% endifchanged %}{% ifchanged %}abc{% endifchanged %}{% endfor %}",
                   "{% case plain %}{% when 'abc' %}hit{% else %}miss{% endcase %}{% if plain == 'abc' %}eq{% endif %}{% assign k = 'abc' %}{% if k == plain %}eq2{% endif %}",
                   "{% capture c %}abc{% endcapture %}{% if c == plain %}same{% endif %}{% cycle c, 'y' %}{% cycle plain, 'y' %}"]
    for src in plain_srcs:
        cases += 1
        a, b_ = env.from_string(src).render(**DATA), plain.from_string(src).render(**DATA)
        if a != b_:
            viol.append({"id": "autoescape-changes-plain-output", "witness": "plain:" + src[:20], "source": src, "got": f"{a!r} vs {b_!r}"})
    return {"bound": f"{len(subjects)} data values x filter chains of length 1 and (a third of) 2 over {len(FILTERS)} filters; {len(FRAMES)} tag frames x 3 filters; safe-value and plain-output cases", "cases": cases, "distinct": cases, "violations": viol, "sample": {"source": "{{ u | append: lt | slice: 0, 3 }}"}}


def replay(case):
    return {"failing": True, "call": case["source"], "result": case["got"]}


if __name__ == "__main__":
    main(run, replay)
