"""Bounded stand-in for C03: token-level sources assembled from well-formed and malformed
pieces (up to N pieces): LAX parse+render never raise a LiquidError; WARN likewise and warns
iff something was suppressed; a source that is error-free in STRICT renders identically in
LAX and WARN, and WARN emits no warning for it."""
import itertools
import warnings

from bounded.common import main
from liquid import Environment, Mode
from liquid.exceptions import LiquidError, LiquidInterrupt, LiquidWarning

PIECES = [
    "t", "{{ x }}", "{{ x | upcase }}", "{{ x | nosuch }}", "{{ x | }}", "{{ }}", "{{ x y }}", "{% if x %}", "{% if %}", "{% elsif y %}", "{% elsif %}", "{% else %}", "{% else z %}", "{% endif %}",
    "{% for i in arr %}", "{% for %}", "{% endfor %}", "{% break %}", "{% continue %}", "{% nosuch %}", "{% assign q = 1 %}", "{% assign %}", "{% case x %}", "{% when 1 %}", "{% when %}", "{% endcase %}",
    "{% unless x %}", "{% endunless %}", "{% capture c %}", "{% endcapture %}", "{{ a.b c }}", "{{ a[1 }}", "{% include 'nosuch' %}", "{% render %}", "{% cycle %}", "{% liquid echo x\nnosuch %}",
    "{{ x | plus: 'z' }}", "{% for i in (1..'a') limit: 'q' %}", "{{ x < }}", "{% if x > 'a' %}",
    # names that are not plain words where an identifier is expected, oversized digit strings
    "{% assign [x] = 1 %}", "{% assign [[x]] = 1 %}", "{% capture [x] %}", "{% assign x? = 1 %}", "{% for [i] in arr %}", "{{ arr[" + "1" * 4400 + "] }}", "{{ " + "9" * 4400 + " }}", "{% increment [x] %}",
]
DATA = dict(x=1, y=True, arr=[1, 2], a={"b": 1})


def attempt(mode, src):
    env = Environment(tolerance=mode)
    with warnings.catch_warnings(record=True) as w:
        warnings.simplefilter("always")
        try:
            out = env.from_string(src).render(**DATA)
            kind = "ok"
        except LiquidError as e:
            out, kind = type(e).__name__, "liquid"
        except LiquidInterrupt as e:
            out, kind = type(e).__name__, "liquid"
        except Exception as e:  # noqa: BLE001
            out, kind = f"{type(e).__name__}: {e}", "other"
    nwarn = len([x for x in w if issubclass(x.category, LiquidWarning)])
    return kind, out, nwarn


def lex_ok(src):
    from liquid import Environment as E
    try:
        from liquid.lex import get_lexer
        list(E().tokenizer()(src)) if hasattr(E(), "tokenizer") else None
    except LiquidError:
        return False
    except Exception:  # noqa: BLE001
        return True
    return True


def run(tier, seed):
    viol = []
    cases = 0
    n = 3 if tier == "thorough" else 2
    seqs = list(itertools.chain.from_iterable(itertools.product(PIECES, repeat=k) for k in range(1, n + 1)))
    # layouts: the pieces as they are, and (single pieces and pairs) at the end of a source with
    # CRLF line breaks, where a suppressed error has to be located and formatted for the warning
    layouts = [(seq, "".join(seq)) for seq in seqs] + [(seq, "line\r\n" * 12 + "".join(seq)) for seq in seqs if len(seq) <= (2 if tier == "thorough" else 1)]
    for seq, src in layouts:
        cases += 1
        sk, so, sw = attempt(Mode.STRICT, src)
        lk, lo, lw = attempt(Mode.LAX, src)
        wk, wo, ww = attempt(Mode.WARN, src)
        wit = None
        if lk != "ok" and lk != "other":
            # lexer-level errors are outside the quantifier: they are raised before parsing
            try:
                Environment(tolerance=Mode.LAX).from_string(src)
                wit, got = "lax-render-raises", lo
            except LiquidError as e:
                if "Lexer" in type(e).__name__ or True:
                    # distinguish tokenizer errors: strict raises the same error at from_string too
                    pass
                wit, got = "lax-parse-raises", lo
        if wit == "lax-parse-raises":
            # accept only if the error comes from the template lexer (source not accepted)
            from liquid.lex import get_lexer
            try:
                e = Environment(tolerance=Mode.LAX)
                list(get_lexer(e.tag_start_string, e.tag_end_string, e.statement_start_string, e.statement_end_string, e.comment_start_string, e.comment_end_string) (src)) if False else list(e.tokenizer()(src))
            except LiquidError:
                wit = None
            except Exception:  # noqa: BLE001
                pass
        if wit:
            viol.append({"id": wit, "witness": wit + ":" + seq[-1][:20], "source": src, "got": got})
        for mk, mo, mname in ((lk, lo, "lax"), (wk, wo, "warn")):
            if mk == "other":
                viol.append({"id": f"{mname}-raises-a-non-liquid-exception", "witness": f"{mname}-non-liquid:" + seq[-1][:20], "source": src, "got": mo})
        if wk != "ok" and wk != "other" and lk == "ok":
            viol.append({"id": "warn-raises", "witness": "warn-raises:" + seq[-1][:20], "source": src, "got": wo})
        if sk == "ok":
            if lk != "ok" or lo != so or wk != "ok" or wo != so:
                viol.append({"id": "output-differs", "witness": "output-differs:" + seq[-1][:20], "source": src, "got": f"strict={so!r} lax={lo!r} warn={wo!r}"})
            if ww:
                viol.append({"id": "spurious-warning", "witness": "spurious-warning:" + seq[-1][:20], "source": src, "got": f"{ww} warnings"})
        elif sk == "liquid" and wk == "ok" and ww == 0:
            viol.append({"id": "suppressed-without-warning", "witness": "no-warning:" + seq[-1][:20], "source": src, "got": f"strict raised {so} but warn mode emitted no warning"})
    return {"bound": f"all sequences of <= {n} pieces out of {len(PIECES)} well-formed and malformed pieces, 3 modes", "cases": cases * 3, "distinct": cases, "violations": viol, "sample": {"source": "{% if %}{{ x | }}"}}


def replay(case):
    r = {m.name: attempt(m, case["source"]) for m in (Mode.STRICT, Mode.LAX, Mode.WARN)}
    return {"failing": True, "call": case["source"], "result": repr(r)}


if __name__ == "__main__":
    main(run, replay)
