"""Bounded stand-in for C04 (run-time contract; never counted as proved).

For every template t of a generated pool: s = str(parse(t)) must parse, render like t on
every data set, and str(parse(s)) == s.  The pool: every standard tag with the options of
the quantifier, all and/or/not/comparison trees to a depth, string literals over quotes,
backslashes and newlines, bracketed and nested paths, ranges, filters with positional and
keyword arguments, ternaries."""
import itertools
import random

from bounded.common import main
from liquid import DictLoader, Environment
from liquid.exceptions import LiquidError


class Env(Environment):
    logical_not_operator = True
    logical_parentheses = True
    ternary_expressions = True


PARTS = {"part": "[{{ x }}{{ y }}]", "p2": "<{{ p2 }}|{{ z }}>"}

DATA = [
    {},
    {"a": True, "b": False, "c": True, "x": 1, "y": "s", "arr": [1, 2, 3, 4], "site": {"title": "T", "a b": "AB", "pages": [{"t": "p1"}, {"t": "p2"}], "k": "title", "a.b": "dot"}, "k": "title", "n": 2},
    {"a": False, "b": True, "c": False, "x": 0, "y": "", "arr": [], "site": {"title": "", "a b": None, "pages": [], "k": "a b", "a.b": 1}, "k": "a b", "n": 0},
    {"a": None, "b": None, "c": "c", "x": "x", "y": [1], "arr": ["b", "a", "b"], "site": {"title": "T2", "pages": [{"t": "q"}], "k": "pages"}, "k": "pages", "n": 1},
    {"a": True, "b": True, "c": False, "x": 2, "y": 2, "arr": [3, 3, 1], "site": {}, "k": "", "n": 5},
]

# names that are keywords of the expression tokenizer, reachable only through quoted segments
KW = {"empty": "E", "true": "T", "nil": "N", "with": {"title": "W"}, "not": "NOT", "and": {"or": "AO"}, "limit": 2, "offset": 1, "contains": "abc", "in": "b", "if": None, "else": "ELSE"}
for _d in DATA[1:3]:
    _d.update({k: v for k, v in KW.items() if k in ("true", "nil", "not", "if", "else")})
    _d["site"].update(KW)
    _d["site"]["pages"] = dict(enumerate(_d["site"]["pages"])) if False else _d["site"]["pages"]

ATOMS = ["a", "b", "c", "x == 1", "y != 's'", "x < n", "arr contains 3", "site.title == 'T'", "true", "false", "nil", "x <= 2", "y == empty", "y == blank"]
STRINGS = ["'plain'", '"dq"', "'has \"dq\" inside'", '"has \'sq\' inside"', "'back\\slash'", "'two\\\\slashes'", "'line\nbreak'", "'tab\there'", "''", "' '", "'%}{{'", "'ünï'"]
PATHS = ["x", "site.title", "site['title']", 'site["a b"]', "site[k]", "site.pages[0].t", "site.pages[n].t", "site[site.k]", "['x']", "['site'].title", "site['a.b']", "arr[0]", "arr[-1]", "arr.first", "arr.size", "site.pages.first.t",
         "site['pages'][0]['t']", "site[ 'title' ]", "x.y.z", "site['back\\slash']", "site['new\nline']", "site[\"it's\"]", "['a b']", "['a b'].c", "site['q\"uote']", "[k]", "[site.k]", "a-b.c-d", "['a']", "site['a-b']", "site['0']", "site['']"]
FILTERS = ["upcase", "append: 'z'", "append: y", "default: 'd'", "default: 'd', allow_false: true", "slice: 0, 2", "replace: 'a', 'b'", "join: ', '", "plus: 1 | times: 2", "truncate: 5, '..'", "date: '%Y'", "split: ',' | first", "default: site.title"]


def bool_trees(depth, rnd, n):
    """and/or/not/group trees over ATOMS (source text)"""
    out = set()

    def gen(d):
        if d == 0 or rnd.random() < 0.25:
            return rnd.choice(ATOMS[:8])
        k = rnd.random()
        if k < 0.38:
            return f"{gen(d - 1)} and {gen(d - 1)}"
        if k < 0.76:
            return f"{gen(d - 1)} or {gen(d - 1)}"
        if k < 0.88:
            return f"not {gen(d - 1)}"
        return f"({gen(d - 1)})"
    while len(out) < n:
        out.add(gen(depth))
    return sorted(out)


def exhaustive_bool(depth):
    """every shape with explicit grouping over atoms a, b, c (so each AST shape is reached)"""
    atoms = ["a", "b", "c"]
    level = {0: list(atoms)}
    for d in range(1, depth + 1):
        cur = []
        prev = [e for k in range(d) for e in level[k]]
        last = level[d - 1]
        for l, r in itertools.product(prev, prev):
            if l not in last and r not in last:
                continue
            for op in ("and", "or"):
                cur.append(f"({l}) {op} ({r})")
        for e in last:
            cur.append(f"not ({e})")
        for l in last[:6]:
            cur.append(f"({l}) == c")
            cur.append(f"a != ({l})")
        level[d] = cur
    return [e for k in range(1, depth + 1) for e in level[k]]


def pool(tier, rnd):
    t = []
    conds = ATOMS + bool_trees(3, rnd, 150 if tier == "quick" else 600) + exhaustive_bool(2 if tier == "quick" else 3)[: (400 if tier == "quick" else 4000)]
    for c in conds:
        t.append(("if", "{% if " + c + " %}T{% else %}F{% endif %}"))
    for c in conds[:40]:
        t.append(("unless", "{% unless " + c + " %}T{% else %}F{% endunless %}"))
        t.append(("elsif", "{% if false %}0{% elsif " + c + " %}1{% elsif a %}2{% else %}3{% endif %}"))
        t.append(("ternary", "{{ 'T' if " + c + " else 'F' }}"))
        t.append(("ternary", "{{ x | default: 'q' if " + c + " else y | upcase || append: '!' }}"))
        t.append(("ternary", "{{ x if " + c + " || append: '!' }}"))
    for s in STRINGS:
        t.append(("string", "{{ " + s + " }}"))
        t.append(("string", "{% assign v = " + s + " %}[{{ v }}]"))
        t.append(("string", "{% if y == " + s + " %}T{% else %}F{% endif %}"))
        t.append(("string", "{{ x | append: " + s + " }}"))
        t.append(("string", "{% case y %}{% when " + s + " %}W{% else %}E{% endcase %}"))
    for p in PATHS:
        t.append(("path", "{{ " + p + " }}"))
        t.append(("path", "{% if " + p + " %}T{% endif %}"))
        t.append(("path", "{% for i in " + p + " %}{{ i }}{% endfor %}"))
    for f in FILTERS:
        t.append(("filter", "{{ y | " + f + " }}"))
        t.append(("filter", "{% assign v = arr | " + f + " %}{{ v }}"))
        t.append(("filter", "{% echo x | " + f + " %}"))
    loops = ["arr", "(1..3)", "(x..n)", "(1..arr.size)", "site.pages", "y"]
    opts = ["", " limit: 2", " offset: 1", " limit: n offset: 1", " reversed", " reversed limit: 2 offset: 1", " offset: continue", " limit: 1 reversed"]
    for l, o in itertools.product(loops, opts):
        t.append(("for", "{% for i in " + l + o + " %}{{ i }},{% else %}none{% endfor %}"))
    for l, o in itertools.product(loops[:4], ["", " cols: 2", " limit: 3 cols: 2", " offset: 1 limit: 2", " cols: n"]):
        t.append(("tablerow", "{% tablerow i in " + l + o + " %}{{ i }}{% endtablerow %}"))
    t += [
        ("capture", "{% capture cap %}a{{ x }}b{% endcapture %}[{{ cap }}]"),
        ("assign", "{% assign v = x | plus: 1 %}{{ v }}"),
        ("assign", "{% assign v = site.pages[0].t | upcase %}{{ v }}"),
        ("echo", "{% echo site.title | default: 'none' %}"),
        ("cycle", "{% for i in (1..4) %}{% cycle 'a', 'b', 'c' %}{% endfor %}"),
        ("cycle", "{% for i in (1..4) %}{% cycle 'g1': 'a', 'b' %}{% cycle 'g2': 'a', 'b' %}{% endfor %}"),
        ("cycle", "{% for i in (1..4) %}{% cycle k: 'a', 'b' %}{% cycle x: 1, 2 %}{% endfor %}"),
        ("cycle", "{% for i in (1..3) %}{% cycle x, y, 'lit' %}{% endfor %}"),
        ("increment", "{% increment cnt %}{% increment cnt %}{% decrement cnt %}{% decrement other %}{{ cnt }}"),
        ("ifchanged", "{% for i in arr %}{% ifchanged %}[{{ i }}]{% endifchanged %}{% endfor %}"),
        ("include", "{% include 'part' %}"),
        ("include", "{% include 'part' with site.title as x %}"),
        ("include", "{% include 'part', x: 1, y: site.title %}"),
        ("include", "{% include 'part' for arr as x, y: 'k' %}"),
        ("include", "{% include 'p2' with x %}"),
        ("include", "{% assign nm = 'part' %}{% include nm %}"),
        ("render", "{% render 'part' %}"),
        ("render", "{% render 'part' with site.title as x %}"),
        ("render", "{% render 'part', x: 1, y: site.title %}"),
        ("render", "{% render 'part' for arr as x, y: 'k' %}"),
        ("render", "{% render 'p2' for arr %}"),
        ("liquid", "{% liquid\nassign v = x | plus: 1\nif v > 1\n  echo v\nelse\n  echo 'low'\nendif\nfor i in arr\n  echo i\nendfor %}"),
        ("liquid", "{% liquid\n# comment\necho 'a b'\n%}"),
        ("liquid", "{% liquid %}"),
        ("comment", "a{% comment %} hidden {{ x }} {% endcomment %}b"),
        ("comment", "a{% # inline comment %}b"),
        ("comment", "a{% comment %}{% if %}{% endcomment %}b"),
        ("raw", "a{% raw %} {{ x }} {% if %} {% endraw %}b"),
        ("raw", "{% raw %}{% endraw %}"),
        ("case", "{% case x %}{% when 1 %}one{% when 2, 3 %}two{% when 'x' or 0 %}s{% else %}other{% endcase %}"),
        ("case", "{% case site.title %}{% when 'T' %}t{% when y %}y{% endcase %}"),
        ("case", "{% case x %}{% else %}only{% endcase %}"),
        ("text", "plain {{ x }} text\n  with {{- y -}}  whitespace {%- if a -%} t {%- endif -%} end"),
        ("text", "{{ x }}{{ y }}"),
        ("nested", "{% for i in arr %}{% if i == 2 %}{% continue %}{% elsif i == 4 %}{% break %}{% endif %}{{ forloop.index }}:{{ i }} {% endfor %}"),
        ("nested", "{% for i in (1..2) %}{% for j in (1..2) %}{{ forloop.parentloop.index }}{{ j }}{% endfor %}{% endfor %}"),
        ("nested", "{% unless a %}u{% elsif b %}e{% else %}o{% endunless %}"),
        ("range", "{% assign r = (1..n) %}{{ r | join: '-' }}"),
        ("range", "{{ (x..3) | size }}"),
        ("literal", "{{ 1.5 | plus: 2 }}{{ -3 }}{{ 1e3 }}{{ true }}{{ false }}{{ nil }}|{{ empty }}|{{ blank }}|"),
        ("literal", "{{ 0.00001 }}|{{ -0.00000000123 }}|{{ 123456789012345678.0 }}|{{ 100000000000000000000.0 }}|{{ 0.0001 }}|{{ 9999999999999998.0 }}|{{ -0.0 }}|{{ 5. }}"),
        ("literal", "{% if x < 0.00001 %}T{% endif %}{% assign f = 0.000001 | times: 10 %}{{ f }}{{ (1..3) | join: 1000000000000000000.0 }}"),
        ("keyword-segment", "{{ site['empty'] }}{{ site['true'] }}{{ ['nil'] }}{{ site['with'].title }}{{ ['not'] }}{{ site.with['for'] }}{{ site['and']['or'] }}"),
        ("keyword-segment", "{% for i in arr limit: site['limit'] offset: site['offset'] %}{{ i }}{% endfor %}{% if site['contains'] contains site['in'] %}c{% endif %}{{ ['if'] | default: ['else'] }}"),
        ("case", "{% case x %}{% else %}D{% when 1 %}one{% endcase %}{% case x %}{% when 2 %}two{% else %}D{% when 1 %}one{% else %}E{% endcase %}"),
        ("literal", "{% if x == 1.0 %}T{% endif %}{% if y == nil %}N{% endif %}{% if arr == empty %}E{% endif %}{% if y == blank %}B{% endif %}"),
    ]
    return t


def feature(src):
    """what a failing template exercises (keeps distinct causes apart when violations are
    de-duplicated by witness)"""
    import hashlib
    import re
    if re.search(r"\b(nil|null)\b", src):
        return "nil-literal"
    return hashlib.sha1(src.encode()).hexdigest()[:8]


def run(tier, seed):
    rnd = random.Random(seed)
    env = Env(loader=DictLoader(PARTS))
    viol, cases, kinds = [], 0, {}
    seen = set()
    for kind, src in pool(tier, rnd):
        if src in seen:
            continue
        seen.add(src)
        try:
            t0 = env.from_string(src)
        except LiquidError:
            continue  # not a template of the language
        cases += 1
        kinds[kind] = kinds.get(kind, 0) + 1
        try:
            s1 = str(t0)
        except Exception as e:  # noqa: BLE001
            viol.append({"id": "str-raises", "witness": f"{kind}:str:{type(e).__name__}:{feature(src)}", "source": src, "got": repr(e)})
            continue
        try:
            t1 = env.from_string(s1)
        except LiquidError as e:
            viol.append({"id": "serialised-text-does-not-parse", "witness": f"{kind}:noparse:{feature(src)}", "source": src, "serialised": s1, "got": type(e).__name__ + ": " + str(e).splitlines()[0][:80]})
            continue
        bad = None
        for d in DATA:
            r0 = outcome(t0, d)
            r1 = outcome(t1, d)
            if r0 != r1:
                bad = (d, r0, r1)
                break
        if bad:
            viol.append({"id": "serialised-text-renders-differently", "witness": f"{kind}:differs:{feature(src)}", "source": src, "serialised": s1, "data": DATA.index(bad[0]), "got": bad[2], "want": bad[1]})
            continue
        s2 = str(t1)
        if s2 != s1:
            viol.append({"id": "second-serialisation-differs", "witness": f"{kind}:unstable:{feature(src)}", "source": src, "serialised": s1, "got": s2})
    return {"bound": f"{cases} templates ({', '.join(f'{k}:{v}' for k, v in sorted(kinds.items()))}) x {len(DATA)} data sets; boolean trees to depth 3 (random) and {'2' if tier == 'quick' else '3'} (every explicitly grouped shape over a, b, c)",
            "cases": cases, "distinct": cases, "violations": viol, "sample": {"source": "{% if (a or b) and not c %}T{% endif %}"}}


def outcome(t, d):
    try:
        return t.render(**d)
    except LiquidError as e:
        return "!" + type(e).__name__
    except Exception as e:  # noqa: BLE001
        return "!!" + type(e).__name__


def replay(case):
    env = Env(loader=DictLoader(PARTS))
    t0 = env.from_string(case["source"])
    s1 = str(t0)
    try:
        t1 = env.from_string(s1)
    except LiquidError as e:
        return {"failing": True, "call": case["source"], "result": f"str() = {s1!r} does not parse: {type(e).__name__}"}
    for d in DATA:
        if outcome(t0, d) != outcome(t1, d):
            return {"failing": True, "call": case["source"], "result": f"str() = {s1!r} renders {outcome(t1, d)!r}, the original {outcome(t0, d)!r}"}
    if str(t1) != s1:
        return {"failing": True, "call": case["source"], "result": f"str() = {s1!r}, again = {str(t1)!r}"}
    return {"failing": False, "call": case["source"], "result": s1}


if __name__ == "__main__":
    main(run, replay)
