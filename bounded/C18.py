"""Bounded stand-in for C18: all inheritance chains of length 1..N over 2 block names with
nested blocks, partial overrides, block.super, required flags, text after extends, and
cycles, rendered through the real tags and compared with a reference resolver written from
the statement."""
import itertools

from bounded.common import main
from liquid import DictLoader, Environment
from liquid.exceptions import LiquidError, RequiredBlockError, TemplateInheritanceError
from liquid.extra import BlockTag, ExtendsTag

# a definition of block `a` in level i: None (not overridden), plain, with super, or nested block b
DEFS = [None, "plain", "super", "nested"]


def source(level, n, adef, bdef, required):
    parts = []
    if level < n - 1:
        parts.append("{% extends 't" + str(level + 1) + "' %}IGNORED" + str(level))
    else:
        parts.append("<")
    if adef is not None or level == n - 1:
        body = f"A{level}"
        if adef == "super":
            body += "({{ block.super }})"
        if adef == "nested" or (level == n - 1 and bdef is not None):
            body += "{% block b %}B" + str(level) + "{% endblock %}"
        req = " required" if (required and level == n - 1) else ""
        parts.append("{% block a" + req + " %}" + body + "{% endblock a %}")
    if bdef is not None and adef != "nested" and level != n - 1:
        parts.append("{% block b %}b" + str(level) + ("[{{ block.super }}]" if bdef == "super" else "") + "{% endblock %}")
    if level == n - 1:
        parts.append(">")
    return "".join(parts)


def reference(n, adefs, bdefs, required):
    """root template with every block replaced by its most-derived definition"""
    def b_defs():
        out = []
        for lvl in range(n):
            if lvl == n - 1:
                if bdefs[lvl] is not None or adefs[lvl] == "nested":
                    out.append((lvl, f"B{lvl}", False))
            elif adefs[lvl] == "nested":
                out.append((lvl, f"B{lvl}", False))
            elif bdefs[lvl] is not None:
                out.append((lvl, f"b{lvl}", bdefs[lvl] == "super"))
        return out
    def render_b():
        defs = b_defs()
        if not defs:
            return ""
        def at(i):
            lvl, text, sup = defs[i]
            if sup:
                return text + "[" + (at(i + 1) if i + 1 < len(defs) else "") + "]"
            return text
        return at(0)
    a_levels = [l for l in range(n) if adefs[l] is not None or l == n - 1]
    def render_a(i):
        lvl = a_levels[i]
        text = f"A{lvl}"
        if adefs[lvl] == "super":
            text += "(" + (render_a(i + 1) if i + 1 < len(a_levels) else "") + ")"
        has_b = adefs[lvl] == "nested" or (lvl == n - 1 and bdefs[lvl] is not None)
        if has_b:
            text += render_b()
        return text
    if required and a_levels == [n - 1]:
        return RequiredBlockError
    return "<" + render_a(0) + ">"


def env_for(parts):
    e = Environment(loader=DictLoader(parts))
    e.add_tag(ExtendsTag)
    e.add_tag(BlockTag)
    return e


def run(tier, seed):
    viol = []
    cases = 0
    maxn = 4 if tier == "thorough" else 3
    for n in range(1, maxn + 1):
        for adefs in itertools.product(DEFS, repeat=n):
            for bdefs in itertools.product([None, "plain", "super"], repeat=n):
                for required in (False, True):
                    # a block b defined at two places of one template is a duplicate: skip those shapes
                    parts = {f"t{l}": source(l, n, adefs[l], bdefs[l], required) for l in range(n)}
                    cases += 1
                    want = reference(n, adefs, bdefs, required)
                    e = env_for(parts)
                    try:
                        got = e.get_template("t0").render()
                    except RequiredBlockError:
                        got = RequiredBlockError
                    except LiquidError as ex:
                        got = f"raised {type(ex).__name__}: {ex}"[:80]
                    if got != want:
                        viol.append({"id": "chain-output", "witness": f"n{n}:" + "/".join(str(x) for x in adefs) + "|" + "/".join(str(x) for x in bdefs) + ("|req" if required else ""), "source": repr(parts), "got": repr(got), "want": repr(want)})
    # cycles, duplicates, mismatched endblock
    for parts, root, exc in (
        ({"a": "{% extends 'b' %}", "b": "{% extends 'a' %}"}, "a", TemplateInheritanceError),
        ({"a": "{% extends 'a' %}"}, "a", TemplateInheritanceError),
        ({"a": "{% extends 'b' %}", "b": "{% extends 'c' %}", "c": "{% extends 'b' %}"}, "a", TemplateInheritanceError),
        ({"a": "{% block x %}{% endblock %}{% block x %}{% endblock %}"}, "a", TemplateInheritanceError),
        ({"c": "{% extends 'a' %}", "a": "{% block x %}{% endblock %}{% block x %}{% endblock %}"}, "c", TemplateInheritanceError),
        ({"c": "{% extends 'a' %}{% block x %}{% endblock %}{% block x %}{% endblock %}", "a": "{% block x %}{% endblock %}"}, "c", TemplateInheritanceError),
        ({"a": "{% extends 'b' %}{% extends 'b' %}", "b": "x"}, "a", TemplateInheritanceError),
        ({"a": "{% block x %}{% endblock y %}"}, "a", TemplateInheritanceError),
    ):
        cases += 1
        try:
            out = env_for(parts).get_template(root).render()
            viol.append({"id": "not-rejected", "witness": ("standalone-duplicate-blocks" if len(parts) == 1 and "block x" in parts.get("a", "") and "endblock y" not in parts["a"] else "reject:" + str(sorted(parts))[:30]), "source": repr(parts), "got": repr(out), "want": exc.__name__})
        except exc:
            pass
        except RecursionError:
            viol.append({"id": "not-rejected", "witness": "recursion", "source": repr(parts), "got": "RecursionError", "want": exc.__name__})
        except LiquidError as ex:
            viol.append({"id": "not-rejected", "witness": "wrong-error:" + type(ex).__name__, "source": repr(parts), "got": type(ex).__name__, "want": exc.__name__})
    return {"bound": f"all chains of length 1..{maxn} over block a in {DEFS} and block b in [None, plain, super] per level, required on/off; 6 rejection cases", "cases": cases, "distinct": cases, "violations": viol, "sample": {"chain": {"t0": source(0, 2, "super", None, False), "t1": source(1, 2, "plain", None, False)}}}


def replay(case):
    return {"failing": True, "call": case["source"], "result": case["got"]}


if __name__ == "__main__":
    main(run, replay)
