"""Bounded stand-in for C10: run-time contract render(source) == reference_render(source) with
a small reference renderer written from the statement, over all sources assembled from <= N
pieces (text, whitespace, markup-like fragments, output, raw, comment, doc, inline comment,
liquid tag) x every hyphen combination, default delimiters and shorthand template comments."""
import itertools

from bounded.common import main
from liquid import Environment
from liquid.exceptions import LiquidError

TEXTS = ["a", "  ", " b ", "\n", "}} x", "% y", "c\n", "\n d \n\n"]


def pieces():
    out = []
    for t in TEXTS:
        out.append(("text", t, False, False, t))
    for l, r in itertools.product(("", "-"), repeat=2):
        out.append(("markup", "{{" + l + " v " + r + "}}", l == "-", r == "-", "V"))
        out.append(("markup", "{%" + l + " assign q = 1 " + r + "%}", l == "-", r == "-", ""))
        out.append(("markup", "{%" + l + " # inline " + r + "%}", l == "-", r == "-", ""))
        out.append(("markup", "{%" + l + " # " + r + "%}", l == "-", r == "-", ""))
        out.append(("markup", "{%" + l + " liquid echo v " + r + "%}", l == "-", r == "-", "V"))
        for l2, r2 in itertools.product(("", "-"), repeat=2):
            out.append(("markup", "{%" + l + " raw " + r2 + "%} {{ r }} {%" + l2 + " endraw " + r + "%}", l == "-", r == "-", " {{ r }} "))
            out.append(("markup", "{%" + l + " comment " + r2 + "%} c {{ x }} {%" + l2 + " endcomment " + r + "%}", l == "-", r == "-", ""))
            out.append(("markup", "{%" + l + " doc " + r2 + "%} d {%" + l2 + " enddoc " + r + "%}", l == "-", r == "-", ""))
            # the same blocks with an EMPTY body (their own code paths in the lexer)
            out.append(("markup", "{%" + l + " raw " + r2 + "%}{%" + l2 + " endraw " + r + "%}", l == "-", r == "-", ""))
            out.append(("markup", "{%" + l + " comment " + r2 + "%}{%" + l2 + " endcomment " + r + "%}", l == "-", r == "-", ""))
            out.append(("markup", "{%" + l + " doc " + r2 + "%}{%" + l2 + " enddoc " + r + "%}", l == "-", r == "-", ""))
        out.append(("markup", "{#" + l + " tc " + r + "#}", l == "-", r == "-", ""))
    return out


def reference(seq):
    """statement semantics: text verbatim; markup contributes its output; a hyphen on the
    closing delimiter strips leading whitespace of the following text, a hyphen on the
    opening delimiter strips trailing whitespace of the preceding text"""
    out = []
    # merge adjacent text pieces first (they form one text run)
    runs = []
    for p in seq:
        if p[0] == "text" and runs and runs[-1][0] == "text":
            runs[-1] = ("text", runs[-1][1] + p[1], False, False, runs[-1][4] + p[4])
        else:
            runs.append(p)
    for i, p in enumerate(runs):
        if p[0] == "text":
            t = p[4]
            if i > 0 and runs[i - 1][3]:
                t = t.lstrip()
            if i + 1 < len(runs) and runs[i + 1][2]:
                t = t.rstrip()
            out.append(t)
        else:
            out.append(p[4])
    return "".join(out)


def run(tier, seed):
    env = Environment(template_comments=True, comment_start_string="{#", comment_end_string="#}")
    ps = pieces()
    texts = [p for p in ps if p[0] == "text"]
    marks = [p for p in ps if p[0] == "markup"]
    viol = []
    cases = 0
    seqs = []
    for m in marks:
        for a, b in itertools.product(texts + [None], repeat=2):
            seqs.append([x for x in (a, m, b) if x is not None])
    if tier == "thorough":
        for m1, m2 in itertools.product(marks, repeat=2):
            for t in texts:
                seqs.append([m1, t, m2])
    else:
        for m1, m2 in itertools.product(marks[::3], repeat=2):
            for t in texts[:3]:
                seqs.append([m1, t, m2])
    for seq in seqs:
        src = "".join(p[1] for p in seq)
        cases += 1
        want = reference(seq)
        try:
            got = env.from_string(src).render(v="V", x="X")
        except LiquidError as e:
            # text that itself looks like markup ("}} x" after "{{") can change the tokenisation: skip ambiguous sources
            continue
        if got != want:
            kind = [p[1].split()[1] if p[0] == "markup" and len(p[1].split()) > 1 else p[0] for p in seq]
            viol.append({"id": "render-differs-from-reference", "witness": "ws:" + "/".join(str(k) for k in kind)[:40], "source": src, "got": repr(got), "want": repr(want)})
    return {"bound": f"text/markup/text triples and markup/text/markup triples over {len(texts)} texts x {len(marks)} markup pieces with every hyphen combination", "cases": cases, "distinct": cases, "violations": viol, "sample": {"source": "a {%- raw -%} {{ r }} {%- endraw -%} b"}}


def replay(case):
    env = Environment(template_comments=True, comment_start_string="{#", comment_end_string="#}")
    got = env.from_string(case["source"]).render(v="V", x="X")
    return {"failing": repr(got) != case["want"], "call": case["source"], "result": repr(got)}


if __name__ == "__main__":
    main(run, replay)
