"""Bounded stand-in for C02: run-time contract 'only LiquidError subclasses escape' over
every registered filter (default + extra environment) applied to a hostile value pool with
0..2 arguments from the pool, plus tag templates with hostile arguments, in all three modes."""
import itertools
import warnings

from bounded.common import main
from liquid import Environment, Mode
from liquid.exceptions import LiquidError, LiquidInterrupt

POOL = {
    "none": None, "t": True, "f": False, "i0": 0, "i1": 1, "ineg": -3, "ihuge": 10**30, "fl": 1.5, "inf": float("inf"), "ninf": float("-inf"), "nan": float("nan"),
    "s": "abc", "sempty": "", "snum": "12", "sfloat": "1.5", "sinf": "inf", "snan": "nan", "se": "1e999", "spct": "100% %s %(a)s %d", "sb64": "!!!", "sb64b": "/w==", "shuge": "9" * 5000, "ssnan": "sNaN", "ivhuge": 10**5000, "lsnan": ["sNaN", 1], "linf": ["inf", "-inf"], "sdig": "\u00b2", "sts": "99999999999999",
    "l": [1, "a", None], "lempty": [], "lnest": [[1, [2]], "x"], "ldict": [{"a": 1}, {"a": "x"}, {"b": 2}], "d": {"a": 1, "b": [1]}, "dempty": {}, "r": range(3),
}


def envs():
    from liquid.extra import add_tags_and_filters
    out = []
    for mode in (Mode.STRICT, Mode.LAX, Mode.WARN):
        e = Environment(tolerance=mode)
        try:
            add_tags_and_filters(e)
        except Exception:  # noqa: BLE001
            pass
        out.append((mode.name, e))
    return out


def render(env, src, vals, mode="sync"):
    try:
        with warnings.catch_warnings():
            warnings.simplefilter("ignore")
            if mode == "sync":
                env.from_string(src).render(**vals)
            else:
                import asyncio
                asyncio.run(env.from_string(src).render_async(**vals))
        return None
    except (LiquidError, LiquidInterrupt):
        return None
    except RecursionError:
        return None  # C09's business
    except Exception as e:  # noqa: BLE001
        return f"{type(e).__name__}: {str(e)[:80]}"


TAGS = [
    "{% for i in (A..B) %}{{ i }}{% endfor %}", "{% for i in l limit:A offset:B %}{{ i }}{% endfor %}", "{% for i in A %}{{ i }}{% endfor %}", "{% tablerow i in l cols:A limit:B %}{{ i }}{% endtablerow %}",
    "{% if A < B %}x{% endif %}", "{% if A contains B %}x{% endif %}", "{% if A == B %}x{% endif %}", "{% case A %}{% when B %}x{% endcase %}", "{% cycle A, B %}", "{% assign z = A | plus: B %}{{ z }}",
    "{{ A[B] }}", "{{ l[A] }}", "{{ d[A] }}", "{% increment A %}", "{% capture c %}{{ A }}{% endcapture %}{{ c | size }}", "{% unless A >= B %}x{% endunless %}", "{{ A | default: B }}", "{% echo A | append: B %}",
    "{% liquid assign q = A | times: B\necho q %}", "{{ [A] }}", "{% ifchanged %}{{ A }}{% endifchanged %}",
    "{% translate count: A %}s {{ count }}{% plural %}p {{ count }}{% endtranslate %}", "{% translate context: A, x: B %}s {{ x }}{% endtranslate %}", "{% with a: A %}{{ a | plus: B }}{% endwith %}", "{{ A | t: plural: B, count: A }}",
]

# render data that is named like configuration but is not what the library expects
SPECIAL = [
    ("{{ 'x' | t }}", {"translations": 5}), ("{{ 'x' | gettext }}", {"translations": "nope"}), ("{{ 'x' | ngettext: 'y', 2 }}", {"translations": [1]}), ("{% translate %}x{% endtranslate %}", {"translations": 5}),
    ("{{ 1 | currency }}", {"locale": 5}), ("{{ 'now' | date: '%Y' }}", {"timezone": 5}), ("{{ x | size }}", {"x": range(10**30)}), ("{{ x | first }}{{ x | last }}", {"x": range(10**30)}),
]


def wit(prefix, err):
    kind = err.split(":")[0]
    if "Exceeds the limit" in err and "integer string conversion" in err:
        kind = "int-max-str-digits"
    return f"{prefix}:{kind}"


def run_templates(vals, limit=None, tier="quick"):
    viol = []
    names = list(vals)
    es = envs()
    n = 0
    for mode, env in es[:1] if tier == "quick" else es:
        for fname in sorted(env.filters):
            for left in names:
                for nargs in (0, 1, 2):
                    argsets = [()] if nargs == 0 else (itertools.product(names, repeat=nargs) if (nargs == 1 or tier == "thorough") else [(a, "i1") for a in names] + [("i1", a) for a in names])
                    for args in argsets:
                        src = "{{ " + left + " | " + fname + (": " + ", ".join(args) if args else "") + " }}"
                        n += 1
                        err = render(env, src, vals)
                        if err:
                            viol.append({"id": "non-liquid-exception", "witness": wit(fname, err), "source": src, "got": err, "mode": mode})
                            if limit and len(viol) >= limit:
                                return viol
    for mode, env in es:
        for t in TAGS:
            for a, b in itertools.product(names, repeat=2):
                src = t.replace("A", a).replace("B", b)
                for rmode in ("sync", "async") if mode == "STRICT" else ("sync",):
                    n += 1
                    err = render(env, src, vals, rmode)
                    if err:
                        viol.append({"id": "non-liquid-exception", "witness": wit(f"tag:{rmode}:{t[:24]}", err), "source": src, "got": err, "mode": mode, "render": rmode})
                        if limit and len(viol) >= limit:
                            return viol
    run_templates.count = n
    return viol


MALFORMED = ["{% if %}", "{% for %}", "{{ | }}", "{% assign %}", "{% endfor %}", "{{ a | }}", "{% if a %}", "{% case %}{% when %}", "{{ 'a", "{% raw %}", "{% liquid\nif %}", "{% cycle %}", "{% render %}", "{% include %}",
             "{% for i in (1..) %}", "{{ a[ }}", "{{ a..b }}", "{% tablerow %}", "{% unless %}{% else %}{% else %}{% endunless %}", "{% increment %}", "{%- -%}", "{{- -}}", "{% # %}", "{% if a and %}", "{% if (a %}", "{% if not %}"]


def run(tier, seed):
    viol = run_templates(POOL, tier=tier)
    cases = getattr(run_templates, "count", 0)
    for mode, env in envs():
        for src in MALFORMED:
            cases += 1
            err = render(env, src, POOL)
            if err:
                viol.append({"id": "non-liquid-exception", "witness": f"parse:{src[:16]}:{err.split(':')[0]}", "source": src, "got": err, "mode": mode})
    # errors near the end of a source with CRLF line breaks (WARN mode formats the error's line and
    # column for its warning), and empty output inside blocks under an output limit
    crlf = ["line\r\n" * 12 + s_ for s_ in MALFORMED[:8]] + ["line\r\n" * 12 + "{{ 1 | divided_by: 0 }}", "line\r\n" * 12 + "{% for i in (1..2) %}{% endfor %}{% break %}", "a\r\nb\r\n{% render 'nosuch' %}"]
    for mode, env in envs():
        for src in crlf:
            cases += 1
            err = render(env, src, POOL)
            if err:
                viol.append({"id": "non-liquid-exception", "witness": f"crlf:{src[-14:]}:{err.split(':')[0]}", "source": src, "got": err, "mode": mode})

    class Limited(Environment):
        output_stream_limit = 1000
    lim = Limited()
    for src in ("{% if true %}{{ sempty }}{% endif %}", "{% for i in l %}{{ sempty }}{% endfor %}", "{% case 1 %}{% when 1 %}{{ sempty }}{% endcase %}", "{% capture c %}{{ sempty }}{% endcapture %}[{{ c }}]", "{% unless false %}{{ nil }}{% endunless %}"):
        for mode_ in ("sync", "async"):
            cases += 1
            err = render(lim, src, dict(POOL, sempty=""), mode_)
            if err:
                viol.append({"id": "non-liquid-exception", "witness": f"limited-empty-output:{err.split(':')[0]}", "source": src, "got": err, "mode": mode_})
    for mode, env in envs():
        for src, data in SPECIAL:
            cases += 1
            err = render(env, src, data)
            if err:
                viol.append({"id": "non-liquid-exception", "witness": f"config-like-data:{sorted(data)[0]}:{err.split(':')[0]}", "source": src + f" with {data!r}", "got": err, "mode": mode, "data": {k: repr(v) for k, v in data.items()}})
    return {"bound": f"every registered filter x {len(POOL)} left values x 0..2 arguments (quick: second argument position restricted); {len(TAGS)} tag templates x pool^2 x 3 modes; {len(MALFORMED)} malformed sources x 3 modes", "cases": cases, "distinct": cases, "violations": viol, "sample": {"source": "{{ sinf | ceil }}"}}


def replay(case):
    env = dict(envs())[case.get("mode", "STRICT")]
    err = render(env, case["source"], POOL)
    return {"failing": err is not None, "call": case["source"], "result": err}


if __name__ == "__main__":
    main(run, replay)
