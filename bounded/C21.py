"""Bounded stand-in for C21: exhaustive tag sequences up to length N over registered block,
inner, end and unknown tag names; contract: analyze_tags never raises; a source that parses
in strict mode reports nothing; unknown names and unclosed blocks are always reported."""
import itertools

from bounded.common import main
from liquid import Environment
from liquid.exceptions import LiquidError

PIECES = {
    "if": "{% if x %}", "elsif": "{% elsif y %}", "else": "{% else %}", "endif": "{% endif %}",
    "for": "{% for i in a %}", "endfor": "{% endfor %}", "break": "{% break %}",
    "case": "{% case x %}", "when": "{% when 1 %}", "endcase": "{% endcase %}",
    "unless": "{% unless x %}", "endunless": "{% endunless %}",
    "capture": "{% capture v %}", "endcapture": "{% endcapture %}",
    "assign": "{% assign q = 1 %}", "nosuch": "{% nosuch %}", "endnosuch": "{% endnosuch %}", "text": "t",
}


def extraneous_alternative(names):
    """does an if/unless block of this piece sequence contain an else followed, at the same depth,
    by another else or elsif?"""
    stack = []
    for n in names:
        if n in ("if", "unless", "for", "case", "capture"):
            stack.append([n, False])
        elif n in ("endif", "endunless", "endfor", "endcase", "endcapture"):
            if stack:
                stack.pop()
        elif n in ("else", "elsif") and stack and stack[-1][0] in ("if", "unless"):
            if stack[-1][1]:
                return True
            if n == "else":
                stack[-1][1] = True
    return False


def check(env, names):
    src = "".join(PIECES[n] for n in names)
    try:
        res = env.analyze_tags_from_string(src)
    except Exception as e:  # noqa: BLE001
        return src, f"raised {type(e).__name__}: {e}", "total"
    parses = True
    try:
        env.from_string(src)
    except LiquidError:
        parses = False
    except Exception:  # noqa: BLE001
        parses = False
    if parses and (res.unclosed_tags or res.unexpected_tags or res.unknown_tags):
        rep = sorted(set(res.unclosed_tags) | set(res.unexpected_tags) | set(res.unknown_tags))
        if extraneous_alternative(names):
            # the if/unless tags IGNORE (do not parse) whatever follows a second else / an elsif after
            # else, up to their end tag: one distinct cause, kept apart from every other false alarm
            return src, f"valid template reported: unclosed={dict(res.unclosed_tags)} unexpected={dict(res.unexpected_tags)} unknown={dict(res.unknown_tags)}", "false-alarm:text-skipped-after-an-extraneous-else"
        return src, f"valid template reported: unclosed={dict(res.unclosed_tags)} unexpected={dict(res.unexpected_tags)} unknown={dict(res.unknown_tags)}", "false-alarm:" + ",".join(rep)
    if "nosuch" in names and "nosuch" not in res.unknown_tags:
        return src, "unknown tag 'nosuch' not reported", "missed-unknown"
    return src, None, None


def run(tier, seed):
    env = Environment()
    n = 5 if tier == "thorough" else 4
    names = list(PIECES)
    viol = []
    cases = 0
    for k in range(1, n + 1):
        for seq in itertools.product(names, repeat=k):
            cases += 1
            src, err, kind = check(env, seq)
            if err and len(viol) < 5000:
                viol.append({"id": kind.split(":")[0], "witness": kind + (":" + seq[0] if kind == "total" else ""), "source": src, "got": err, "names": list(seq)})
    # nesting: every inner tag, one block deeper than the block that admits it
    blocks = {"if": ("if", "endif"), "for": ("for", "endfor"), "case": ("case", "endcase"), "unless": ("unless", "endunless"), "capture": ("capture", "endcapture")}
    inner = {"for": ["break", "else"], "if": ["else", "elsif"], "unless": ["else", "elsif"], "case": ["when", "else"]}
    for outer, its in inner.items():
        for it in its:
            for mid in blocks:
                for deep in (1, 2):
                    seq = [outer] + [mid] * deep + [it] + [blocks[mid][1]] * deep + [blocks[outer][1]]
                    cases += 1
                    src, err, kind = check(env, seq)
                    if err:
                        viol.append({"id": kind.split(":")[0], "witness": kind + ":nested", "source": src, "got": err, "names": list(seq)})
    # same-name nesting: an inner block of the same name is closed before the outer block's inner tag
    for outer, its in inner.items():
        for it in its:
            for deep in (1, 2):
                seq = [outer] + [outer, blocks[outer][1]] * deep + [it, blocks[outer][1]]
                if outer == "case":
                    seq = [outer, "when"] + [outer, "when", blocks[outer][1]] * deep + [it, blocks[outer][1]]
                cases += 1
                src, err, kind = check(env, seq)
                if err:
                    viol.append({"id": kind.split(":")[0], "witness": kind + ":same-name-nesting", "source": src, "got": err, "names": list(seq)})
    # verbatim blocks (doc, raw, comment) with every whitespace-control variant of their delimiters and
    # tag-like text inside: what they hide is not analysed
    for opn, cls in (("doc", "enddoc"), ("raw", "endraw"), ("comment", "endcomment")):
        for lh, rh, lh2, rh2 in itertools.product(("", "-"), repeat=4):
            for body in (" {% if user %} ", "{% endif %}{% nosuch %}", "{% else %}", " plain "):
                if opn == "comment" and "nosuch" in body:
                    continue
                # a comment tag may carry text after its name ({% comment some note %}); it hides its body all the same
                for note in (("", "some note ", "x y: 1 ") if opn == "comment" else ("",)):
                    src = "a {%" + lh + " " + opn + " " + note + rh + "%}" + body + "{%" + lh2 + " " + cls + " " + rh2 + "%} b"
                    cases += 1
                    try:
                        res = env.analyze_tags_from_string(src)
                        got = sorted(set(res.unclosed_tags) | set(res.unexpected_tags) | set(res.unknown_tags))
                    except Exception as e:  # noqa: BLE001
                        got = [f"raised {type(e).__name__}"]
                    try:
                        env.from_string(src)
                        parses = True
                    except LiquidError:
                        parses = False
                    if parses and got:
                        viol.append({"id": "false-alarm", "witness": f"false-alarm:verbatim-{opn}", "source": src, "got": f"reported {got}", "names": [opn]})
    # history: an analysis in another environment (other tags, other inner-tag map) beforehand must
    # not change what this environment reports
    before = [(dict(r.unknown_tags), dict(r.unexpected_tags), dict(r.unclosed_tags)) for r in (env.analyze_tags_from_string(x) for x in ("{% plural %}", "{% translate %}{% plural %}{% endtranslate %}", "{% if a %}{% plural %}{% endif %}"))]
    Environment(extra=True).analyze_tags_from_string("{% translate %}a{% plural %}b{% endtranslate %}{% macro m %}{% endmacro %}")
    Environment(extra=True).analyze_tags_from_string("{% if x %}{% endif %}", inner_tags={"if": ["nosuch", "assign"], "nosuch": ["text"]})
    after = [(dict(r.unknown_tags), dict(r.unexpected_tags), dict(r.unclosed_tags)) for r in (env.analyze_tags_from_string(x) for x in ("{% plural %}", "{% translate %}{% plural %}{% endtranslate %}", "{% if a %}{% plural %}{% endif %}"))]
    cases += 3
    if before != after:
        viol.append({"id": "history-dependent", "witness": "other-environment-analysed-first", "source": "{% plural %} analysed before/after an extra-environment analysis", "got": f"before={before} after={after}", "names": ["history"]})
    # the extra environment: macro/call, block, with, translate/plural
    xenv = Environment(extra=True)
    XP = dict(PIECES)
    XP.update({"macro": "{% macro m a %}", "endmacro": "{% endmacro %}", "call": "{% call m 1 %}", "block": "{% block b %}", "endblock": "{% endblock %}", "with": "{% with a: 1 %}", "endwith": "{% endwith %}",
               "translate": "{% translate %}", "plural": "{% plural %}", "endtranslate": "{% endtranslate %}"})
    xnames = ["macro", "endmacro", "call", "block", "endblock", "with", "endwith", "translate", "plural", "endtranslate", "if", "else", "endif", "nosuch", "text"]
    saved = dict(PIECES)
    PIECES.update(XP)
    try:
        for k in range(1, (4 if tier == "thorough" else 3) + 1):
            for seq in itertools.product(xnames, repeat=k):
                cases += 1
                src, err, kind = check(xenv, seq)
                if err and len(viol) < 5000:
                    viol.append({"id": kind.split(":")[0], "witness": kind + ":extra" + (":" + seq[0] if kind == "total" else ""), "source": src, "got": err, "names": list(seq)})
        for blk in ("macro", "block", "with", "translate"):
            cases += 1
            res = xenv.analyze_tags_from_string(PIECES[blk] + "x")
            if blk not in res.unclosed_tags:
                viol.append({"id": "missed-unclosed", "witness": blk + ":extra", "source": PIECES[blk] + "x", "got": "unclosed block not reported", "names": [blk]})
    finally:
        PIECES.clear()
        PIECES.update(saved)
    # loader entry points, sync and async, with a caller-supplied inner_tags map
    import asyncio
    from liquid import DictLoader
    lenv = Environment(extra=True, loader=DictLoader({"t": "{% translate %}a{% plural %}b{% endtranslate %}{% if x %}{% else %}{% endif %}", "bad": "{% if x %}{% plural %}"}))
    custom = {"if": ["else", "elsif"], "translate": ["plural"]}
    for nm in ("t", "bad"):
        cases += 1
        a = lenv.analyze_tags(nm, inner_tags=custom)
        b = asyncio.run(lenv.analyze_tags_async(nm, inner_tags=custom))
        c0 = lenv.analyze_tags_from_string(lenv.loader.get_source(lenv, nm).text, name=nm, inner_tags=custom)
        pic = lambda r: (dict(r.unknown_tags), dict(r.unexpected_tags), dict(r.unclosed_tags), r.template_name)  # noqa: E731
        if not (pic(a) == pic(b) == pic(c0)):
            viol.append({"id": "entry-points-disagree", "witness": f"entry:{nm}", "source": nm, "got": f"sync={pic(a)} async={pic(b)} from_string={pic(c0)}", "names": [nm]})
    # unclosed blocks are reported
    for blk in ("if", "for", "case", "unless", "capture"):
        cases += 1
        res = env.analyze_tags_from_string(PIECES[blk] + "x")
        if blk not in res.unclosed_tags:
            viol.append({"id": "missed-unclosed", "witness": blk, "source": PIECES[blk] + "x", "got": "unclosed block not reported", "names": [blk]})
    return {"bound": f"all sequences of length <= {n} over {len(names)} tag/text pieces, default environment", "cases": cases, "distinct": cases, "violations": viol, "sample": {"names": names}}


def replay(case):
    if case["names"] == ["history"]:
        r = run("quick", 0)
        v = [x for x in r["violations"] if x["id"] == "history-dependent"]
        return {"failing": bool(v), "call": "history", "result": v[0]["got"] if v else None}
    src, err, kind = check(Environment(), case["names"])
    return {"failing": err is not None, "call": src, "result": err}


if __name__ == "__main__":
    main(run, replay)
