"""Bounded stand-in for C21: exhaustive tag sequences up to length N over registered block,
inner, end and unknown tag names; contract: analyze_tags never raises; a source that parses
in strict mode reports nothing; unknown names and unclosed blocks are always reported."""
import itertools

from bounded.common import main
from liquid import Environment
from liquid.exceptions import LiquidError

PIECES = {
    "if": "{% if x %}", "elsif": "{% elsif y %}", "else": "{% else %}", "endif": "{% endif %}",
    "for": "{% for i in a %}", "endfor": "{% endfor %}", "break": "{% break %}",
    "case": "{% case x %}", "when": "{% when 1 %}", "endcase": "{% endcase %}",
    "unless": "{% unless x %}", "endunless": "{% endunless %}",
    "capture": "{% capture v %}", "endcapture": "{% endcapture %}",
    "assign": "{% assign q = 1 %}", "nosuch": "{% nosuch %}", "endnosuch": "{% endnosuch %}", "text": "t",
}


def check(env, names):
    src = "".join(PIECES[n] for n in names)
    try:
        res = env.analyze_tags_from_string(src)
    except Exception as e:  # noqa: BLE001
        return src, f"raised {type(e).__name__}: {e}", "total"
    parses = True
    try:
        env.from_string(src)
    except LiquidError:
        parses = False
    except Exception:  # noqa: BLE001
        parses = False
    if parses and (res.unclosed_tags or res.unexpected_tags or res.unknown_tags):
        rep = sorted(set(res.unclosed_tags) | set(res.unexpected_tags) | set(res.unknown_tags))
        return src, f"valid template reported: unclosed={dict(res.unclosed_tags)} unexpected={dict(res.unexpected_tags)} unknown={dict(res.unknown_tags)}", "false-alarm:" + ",".join(rep)
    if "nosuch" in names and "nosuch" not in res.unknown_tags:
        return src, "unknown tag 'nosuch' not reported", "missed-unknown"
    return src, None, None


def run(tier, seed):
    env = Environment()
    n = 5 if tier == "thorough" else 4
    names = list(PIECES)
    viol = []
    cases = 0
    for k in range(1, n + 1):
        for seq in itertools.product(names, repeat=k):
            cases += 1
            src, err, kind = check(env, seq)
            if err and len(viol) < 5000:
                viol.append({"id": kind.split(":")[0], "witness": kind + (":" + seq[0] if kind == "total" else ""), "source": src, "got": err, "names": list(seq)})
    # unclosed blocks are reported
    for blk in ("if", "for", "case", "unless", "capture"):
        cases += 1
        res = env.analyze_tags_from_string(PIECES[blk] + "x")
        if blk not in res.unclosed_tags:
            viol.append({"id": "missed-unclosed", "witness": blk, "source": PIECES[blk] + "x", "got": "unclosed block not reported", "names": [blk]})
    return {"bound": f"all sequences of length <= {n} over {len(names)} tag/text pieces, default environment", "cases": cases, "distinct": cases, "violations": viol, "sample": {"names": names}}


def replay(case):
    src, err, kind = check(Environment(), case["names"])
    return {"failing": err is not None, "call": src, "result": err}


if __name__ == "__main__":
    main(run, replay)
