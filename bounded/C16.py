"""Bounded stand-in for C16: for templates over missing names/paths under each undefined
type: strict success => same output as default; default never raises; StrictUndefined raises
UndefinedError when a missing variable is output, iterated, compared or filtered."""
import itertools

from bounded.common import main
from liquid import Environment, FalsyStrictUndefined, StrictDefaultUndefined, StrictUndefined, Undefined
from liquid.exceptions import LiquidError, UndefinedError

USES = [
    "{{ X }}", "{{ X | upcase }}", "{{ X | default: 'd' }}", "{{ X | size }}", "{{ X | join: ',' }}", "{{ X | first }}", "{{ X | append: 'a' }}", "{{ X | plus: 1 }}",
    "{% if X %}t{% else %}f{% endif %}", "{% if X == nil %}t{% else %}f{% endif %}", "{% if X == 1 %}t{% else %}f{% endif %}", "{% if X == false %}t{% else %}f{% endif %}",
    "{% if X == empty %}t{% else %}f{% endif %}", "{% if y contains X %}t{% else %}f{% endif %}", "{% if X contains 'a' %}t{% else %}f{% endif %}",
    "{% unless X %}t{% endunless %}", "{% for i in X %}i{% else %}e{% endfor %}", "{% for i in (1..X) %}i{% endfor %}", "{% case X %}{% when 1 %}a{% else %}b{% endcase %}",
    "{% assign z = X %}{{ z }}", "{% capture z %}{{ X }}{% endcapture %}{{ z }}", "{{ X | default: 'd', allow_false: true }}", "{% cycle X, 'b' %}", "{{ y | where: 'a', X | size }}",
    "{% if X and y %}t{% else %}f{% endif %}", "{% if X or y %}t{% else %}f{% endif %}", "{{ X.a.b }}", "{{ y[X] }}", "{% echo X %}", "{% tablerow i in X %}i{% endtablerow %}",
]
NAMES = ["nosuch", "d.nosuch", "d.a.nosuch", "arr[9]", "d['zz']"]
DATA = {"d": {"a": {"b": 1}}, "arr": [1, 2], "y": ["a", "b"]}
MUST_RAISE = {"{{ X }}", "{{ X | upcase }}", "{% for i in X %}i{% else %}e{% endfor %}", "{% if X == 1 %}t{% else %}f{% endif %}", "{{ X | size }}"}


def render(undef, src):
    env = Environment(undefined=undef)
    try:
        return "ok", env.from_string(src).render(**DATA)
    except UndefinedError:
        return "undef", None
    except LiquidError as e:
        return "liquid", type(e).__name__
    except Exception as e:  # noqa: BLE001
        return "other", f"{type(e).__name__}: {e}"


def run(tier, seed):
    viol = []
    cases = 0
    for use, name in itertools.product(USES, NAMES):
        src = use.replace("X", name)
        cases += 1
        dk, dv = render(Undefined, src)
        if dk in ("undef", "other"):
            viol.append({"id": "default-raises", "witness": "default:" + use, "source": src, "got": f"{dk} {dv}", "want": "no error for a missing variable"})
        for S in (StrictUndefined, StrictDefaultUndefined, FalsyStrictUndefined):
            sk, sv = render(S, src)
            if sk == "ok" and (dk != "ok" or sv != dv):
                viol.append({"id": "strict-differs", "witness": f"{S.__name__}:{use}", "source": src, "got": f"{sv!r} vs default {dv!r}", "want": "equal output", "undef": S.__name__})
            if sk == "other":
                viol.append({"id": "strict-non-liquid", "witness": f"{S.__name__}:{use}", "source": src, "got": str(sv), "want": "UndefinedError or output", "undef": S.__name__})
        if use in MUST_RAISE:
            sk, sv = render(StrictUndefined, src)
            if sk != "undef":
                viol.append({"id": "strict-does-not-raise", "witness": "StrictUndefined:" + use, "source": src, "got": f"{sk} {sv}", "want": "UndefinedError"})
    return {"bound": f"{len(USES)} uses x {len(NAMES)} missing names/paths x 4 undefined types", "cases": cases * 4, "distinct": cases * 4, "violations": viol, "sample": {"source": USES[0].replace("X", NAMES[1])}}


def replay(case):
    from liquid import undefined as u
    S = getattr(u, case.get("undef", "StrictUndefined"))
    sk, sv = render(S, case["source"])
    dk, dv = render(Undefined, case["source"])
    return {"failing": True if case["id"] != "strict-differs" else (sk == "ok" and sv != dv), "call": case["source"], "result": f"{sk} {sv!r} / default {dk} {dv!r}"}


if __name__ == "__main__":
    main(run, replay)
