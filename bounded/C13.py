"""Bounded stand-in for C13: collections of length 0..L of every kind x limit/offset values
from -3..L+3 plus huge, given as literals, variables and strings x reversed on/off,
offset:continue chains, break/continue, forloop helpers and tablerow structure for every
cols value, sync and async, against a reference written from the reference semantics."""
import asyncio
import itertools

from bounded.common import main
from liquid import Environment
from liquid.exceptions import LiquidError


def ref_slice(items, limit, offset, reversed_, cont=0):
    frm = 0 if offset is None else (cont if offset == "continue" else int(offset))
    to = len(items) if limit is None else frm + int(limit)
    seg = [x for i, x in enumerate(items) if frm <= i < to]
    nxt = max(min(to, len(items)), 0) if 0 <= frm <= len(items) else None
    return (list(reversed(seg)) if reversed_ else seg), nxt


def items_of(coll):
    if isinstance(coll, dict):
        return [f"{k}{v}" for k, v in coll.items()]
    if isinstance(coll, str):
        return [coll] if coll else []
    return [str(x) for x in coll]


def render(env, src, data, mode):
    try:
        t = env.from_string(src)
        return t.render(**data) if mode == "sync" else asyncio.run(t.render_async(**data))
    except LiquidError as e:
        return f"raised {type(e).__name__}"
    except Exception as e:  # noqa: BLE001
        return f"raised non-liquid {type(e).__name__}: {e}"


def run(tier, seed):
    env = Environment()
    viol = []
    cases = 0
    L = 4 if tier == "quick" else 6
    colls = {"list": lambda n: list(range(n)), "range": None, "dict": lambda n: {f"k{i}": i for i in range(n)}, "str": lambda n: "s" * n}
    vals = [None] + list(range(-3, L + 4)) + [10**12]
    modes = ("sync", "async")
    for kind in colls:
        for n in (0, 1, 3, L):
            for limit, offset in itertools.product(vals if tier == "thorough" else [None, -2, 0, 1, 2, n, n + 2, 10**12], vals if tier == "thorough" else [None, -3, -1, 0, 1, n, n + 3, 10**12]):
                for rev in (False, True):
                    for how in ("literal", "variable", "string"):
                        if how != "literal" and (rev or n not in (3,)):
                            continue
                        data = {}
                        if kind == "range":
                            coll_src, items = f"(1..{n})", [str(i) for i in range(1, n + 1)]
                        else:
                            data["c"] = colls[kind](n)
                            coll_src, items = "c", items_of(data["c"])
                        args = ""
                        for nm, v in (("limit", limit), ("offset", offset)):
                            if v is None:
                                continue
                            if how == "literal":
                                args += f" {nm}:{v}"
                            elif how == "variable":
                                data[nm[0]] = v
                                args += f" {nm}:{nm[0]}"
                            else:
                                data[nm[0]] = str(v)
                                args += f" {nm}:{nm[0]}"
                        if rev:
                            args += " reversed"
                        body = "{{ x | join: '' }}" if kind == "dict" else "{{ x }}"
                        src = "{% for x in " + coll_src + args + " %}" + body + ":{{ forloop.index0 }}{{ forloop.rindex0 }}{{ forloop.first }}{{ forloop.last }}{{ forloop.length }},{% else %}EMPTY{% endfor %}"
                        seg, _ = ref_slice(items, limit, offset, rev)
                        m = len(seg)
                        want = "".join(f"{x}:{i}{m - i - 1}{str(i == 0).lower()}{str(i == m - 1).lower()}{m}," for i, x in enumerate(seg)) or "EMPTY"
                        for mode in modes:
                            cases += 1
                            got = render(env, src, data, mode)
                            if got != want:
                                viol.append({"id": "for-items", "witness": f"for:{kind}:{how}:{mode}:" + ("neg-offset" if isinstance(offset, int) and offset < 0 else "limit0" if limit == 0 else "other"), "source": src + " " + repr(data)[:60], "got": got[:80], "want": want[:80]})
    # continue chains
    for n, l1, l2 in itertools.product((0, 2, 5), (0, 1, 2, 9), (0, 1, 3)):
        items = [str(i) for i in range(n)]
        src = "{% for x in c limit:" + str(l1) + " %}{{ x }}{% endfor %}|{% for x in c limit:" + str(l2) + " offset:continue %}{{ x }}{% endfor %}|{% for x in c offset:continue %}{{ x }}{% else %}E{% endfor %}"
        a, n1 = ref_slice(items, l1, None, False)
        b, n2 = ref_slice(items, l2, "continue", False, n1)
        c_, _ = ref_slice(items, None, "continue", False, n2)
        want = "".join(a) + "|" + "".join(b) + "|" + ("".join(c_) or "E")
        for mode in modes:
            cases += 1
            got = render(env, src, {"c": list(range(n))}, mode)
            if got != want:
                viol.append({"id": "continue-chain", "witness": f"continue:{mode}", "source": src, "got": got, "want": want})
    # break / continue / parentloop
    for mode in modes:
        for src, want in (("{% for i in (1..5) %}{% if i == 2 %}{% continue %}{% endif %}{% if i == 4 %}{% break %}{% endif %}{{ i }}{% endfor %}", "13"),
                          ("{% for i in (1..2) %}{% for j in (1..2) %}{{ forloop.parentloop.index }}{{ forloop.index }}{% if j == 1 %}{% continue %}{% endif %}x{% endfor %}{% endfor %}", "1112x2122x"),
                          ("{% for i in (1..3) %}{% for j in (1..3) %}{% if j == 2 %}{% break %}{% endif %}{{ i }}{{ j }}{% endfor %}{% endfor %}", "112131")):
            cases += 1
            got = render(env, src, {}, mode)
            if got != want:
                viol.append({"id": "break-continue", "witness": f"interrupts:{mode}", "source": src, "got": got, "want": want})
    # tablerow structure
    for n, cols in itertools.product(range(0, L + 2), [None] + list(range(1, L + 2))):
        for body, interrupt in (("{{ x }}.{{ tablerowloop.row }}.{{ tablerowloop.col }}.{{ tablerowloop.col0 }}.{{ tablerowloop.col_first }}.{{ tablerowloop.col_last }}.{{ tablerowloop.index0 }}.{{ tablerowloop.rindex0 }}", None),
                                ("{% if x == 2 %}{% continue %}{% endif %}{{ x }}", "continue"), ("{% if x == 3 %}{% break %}{% endif %}{{ x }}", "break")):
            src = "{% tablerow x in (1.." + str(n) + ")" + (f" cols:{cols}" if cols else "") + " %}" + body + "{% endtablerow %}"
            nc = cols or n
            out = ['<tr class="row1">\n']
            for j in range(n):
                col = j % nc + 1 if nc else 1
                row = j // nc + 1 if nc else 1
                x = j + 1
                cell = f"{x}.{row}.{col}.{col - 1}.{str(col == 1).lower()}.{str(col == nc).lower()}.{j}.{n - j - 1}" if interrupt is None else ("" if (interrupt == "continue" and x == 2) or (interrupt == "break" and x == 3) else str(x))
                out.append(f'<td class="col{col}">{cell}</td>')
                if col == nc and j != n - 1:
                    out.append(f'</tr>\n<tr class="row{row + 1}">')
                if interrupt == "break" and x == 3:
                    break
            out.append("</tr>\n")
            want = "".join(out)
            for mode in modes:
                cases += 1
                got = render(env, src, {}, mode)
                if got != want:
                    viol.append({"id": "tablerow", "witness": f"tablerow:{mode}:{interrupt or 'helpers'}", "source": src, "got": got[:120], "want": want[:120]})
    return {"bound": f"collections (list/range/dict/str) of length 0,1,3,{L} x limit/offset grids incl. negative, zero, huge (literal/variable/string) x reversed; continue chains; interrupts; tablerow n<= {L+1} x cols<= {L+1}; sync and async", "cases": cases, "distinct": cases, "violations": viol, "sample": {"source": "{% for x in c limit:0 %}"}}


def replay(case):
    return {"failing": True, "call": case["source"], "result": case["got"]}


if __name__ == "__main__":
    main(run, replay)
