"""Bounded stand-in for C20: every span reported by static analysis / tag analysis indexes
its template's source at the reported name; every LiquidError raised while parsing a
malformed source carries a position inside its own source and str(err) succeeds."""
import itertools
import re

from bounded.common import main
from liquid import DictLoader, Environment
from liquid.exceptions import LiquidError

PARTIALS = {"part": "{{ pv.a | upcase }}\n{% assign loc = 1 %}{{ loc }}", "p2": "line1\n  {% for z in pz %}{{ z.q }}{% endfor %}"}
TEMPLATES = [
    "{{ a }}", "{{ a.b.c | upcase | append: d }}", "text\n\n  {{ x['y'].z }}", "{% if a.b and c %}\n{{ d | default: e.f }}{% endif %}", "{% for i in items limit: n %}{{ i.name }}{{ forloop.index }}{% endfor %}",
    "{% liquid\n  assign q = r | plus: 1\n  if q > s\n    echo t.u\n  endif\n%}", "{% capture cap %}{{ v }}{% endcapture %}{{ cap }}", "{% include 'part' %}\n{% render 'p2', pz: w %}", "{{ ['quoted'].k }}", "{{ a[b.c][0] }}",
    "é{{ uni }}é\n{% assign é = ü %}", "{% case k %}{% when l %}{{ m }}{% endcase %}", "{% unless a contains b %}{{ c }}{% endunless %}", "{%- assign   spaced   =   val   -%}{{   spaced   }}", "{% tablerow t in tt cols: cc %}{{ t }}{% endtablerow %}",
    "{{ a | join: b }}", "{% liquid\n  assign   q2 = r2\n\techo\t\tq2 | append:   r3\n  if  q2   ==  r4\n    echo     r5\n  endif\n%}", "a\r\n{{ crlf1 }}\r\n\r\n{% if crlf2 %}{{ crlf3 | upcase }}{% endif %}\r\n", "{% cycle c1, c2 %}", "{% echo e1 | append: e2 %}", "{% increment inc %}{{ inc }}",
]
BROKEN = ["{% if %}", "{{ a | }}", "\n\n{% for %}", "{{ a b }}", "{% nosuch %}", "{% if a %}", "text {{", "{% assign = 1 %}", "{{ a[ }}", "{% liquid\n if a\n echo %}", "{{ 'x }}", "{% endif %}", "{{ a || b }}", "{% for i in (1..) %}{% endfor %}", "é\n{{ ü | }}", "{% case %}", "{{ a ! }}", "{{ a }}{% ", "{% if a = b %}{% endif %}", "x\ny\n{{ z | q: }}"]


def name_at(source, index, name):
    rest = source[index:]
    return rest.startswith(name) or re.match(r"\[\s*['\"]?" + re.escape(name), rest) is not None or re.match(r"['\"]" + re.escape(name), rest) is not None


def ref_line_col(text, index):
    """1-based line and 0-based column of text[index], from the definition of str.splitlines"""
    line, start = 1, 0
    for ln in text.splitlines(keepends=True):
        if index < start + len(ln):
            return line, index - start
        line, start = line + 1, start + len(ln)
    raise IndexError(index)


LINE_TEXTS = ["ab\ncd\n", "ab\r\ncd\r\nef", "a\rb\r\rc", "\n\n\nx", "x", "a\u2028b\x0bc\x0cd\x1ce", "é\r\nü\n", "no newline at end\r\n\r\n"]


def run(tier, seed):
    import asyncio
    from liquid.span import Span
    env = Environment(loader=DictLoader(PARTIALS))
    sources = dict(PARTIALS)
    viol = []
    cases = 0
    # line/column arithmetic against the definition, every index, every kind of line terminator
    for text in LINE_TEXTS:
        for index in range(len(text)):
            cases += 1
            want = ref_line_col(text, index)
            try:
                got = Span("t", index).line_col(text)
            except Exception as e:  # noqa: BLE001
                got = repr(e)
            if tuple(got) != want if isinstance(got, tuple) else True:
                viol.append({"id": "line-col-wrong", "witness": f"span.line_col:{LINE_TEXTS.index(text)}", "source": repr(text), "got": f"index {index}: {got}, want {want}"})
            try:
                ctx = LiquidError("m", token=None)._error_context(text, index)
                got2 = (ctx[0], ctx[1])
            except Exception as e:  # noqa: BLE001
                got2 = repr(e)
            if got2 != want:
                viol.append({"id": "line-col-wrong", "witness": f"error-context:{LINE_TEXTS.index(text)}", "source": repr(text), "got": f"index {index}: {got2}, want {want}"})
    for src, use_async in [(s_, a_) for s_ in TEMPLATES for a_ in (False, True)]:
        t = env.from_string(src, name="main")
        srcs = dict(sources, main=src)
        try:
            a = asyncio.run(t.analyze_async()) if use_async else t.analyze()
        except LiquidError as e:
            continue
        for kind, mapping in (("variables", a.variables), ("globals", a.globals), ("locals", a.locals), ("filters", a.filters), ("tags", a.tags)):
            for name, spans in mapping.items():
                for sp in spans:
                    sp = getattr(sp, "span", sp)
                    cases += 1
                    s = srcs.get(sp.template_name, src)
                    seg = name.split(".")[0].split("[")[0] if kind in ("variables", "globals") else name
                    if not (0 <= sp.index < len(s)) or not name_at(s, sp.index, seg):
                        viol.append({"id": "span-off", "witness": f"{kind}:{name}", "source": src, "got": f"{kind} {name!r} reported at {sp.template_name}:{sp.index} -> {s[sp.index:sp.index+12]!r}"})
                    try:
                        sp.line_col(s)
                    except Exception as e:  # noqa: BLE001
                        viol.append({"id": "line-col-raises", "witness": f"{kind}:{name}", "source": src, "got": repr(e)})
        if use_async:
            continue
        ta = env.analyze_tags_from_string(src, name="main")
        for tname, spans in ta.all_tags.items():
            for sp in spans:
                cases += 1
                if not src[sp.index:].startswith(tname):
                    viol.append({"id": "tag-span-off", "witness": f"tag:{tname}", "source": src, "got": f"{tname} at {sp.index} -> {src[sp.index:sp.index+10]!r}"})
    # tag analysis of UNBALANCED sources: every reported span (unclosed, unexpected, unknown) starts at
    # the reported name
    for src in ("a {% endif %} b", "{% for x in y %}{% endfor %}{% endfor %}", "{% if a %}{% for x in y %}{% endif %}", "x {% nosuch %}{% endnosuch %}", "{% if a %}{% else %}{% when 1 %}{% endif %}{% endunless %}", "\n\n  {% endcase %}{% break %}"):
        ta = env.analyze_tags_from_string(src, name="main")
        for mname in ("unclosed_tags", "unexpected_tags", "unknown_tags", "all_tags", "tags"):
            for tname, spans in getattr(ta, mname, {}).items():
                for sp in spans:
                    cases += 1
                    if not src[sp.index:].startswith(tname):
                        viol.append({"id": "tag-span-off", "witness": f"{mname}:{tname}", "source": src, "got": f"{tname} at {sp.index} -> {src[sp.index:sp.index+10]!r}"})
    combos = BROKEN + [a + b for a, b in itertools.product(BROKEN[:8] + ["ok {{ v }}\n"], BROKEN)] if tier == "thorough" else BROKEN + ["ok {{ v }}\n" + b for b in BROKEN] + [b + "\n{{ tail }}" for b in BROKEN]
    combos = combos + [c_.replace("\n", "\r\n") for c_ in combos if "\n" in c_] + ["a\r\nb\r\n" + b for b in BROKEN]
    for src in combos:
        cases += 1
        try:
            env.from_string(src)
        except LiquidError as e:
            tok = getattr(e, "token", None)
            try:
                msg = str(e)
            except Exception as ex:  # noqa: BLE001
                viol.append({"id": "message-raises", "witness": "str(err):" + type(ex).__name__, "source": src, "got": repr(ex)})
                continue
            if tok is not None and tok.start_index >= 0:
                if tok.source != src and tok.source not in src:
                    viol.append({"id": "foreign-source", "witness": "foreign-source", "source": src, "got": repr(tok.source)[:60]})
                if not (0 <= tok.start_index <= len(tok.source)):
                    viol.append({"id": "position-outside", "witness": "position-outside", "source": src, "got": f"{tok.start_index} not in [0,{len(tok.source)}]"})
        except Exception as e:  # noqa: BLE001
            viol.append({"id": "non-liquid", "witness": type(e).__name__, "source": src, "got": repr(e)})
    return {"bound": f"{len(TEMPLATES)} templates (multi-line, liquid tags, nested paths, partials): every reported span; {len(combos)} malformed sources: every error position and message", "cases": cases, "distinct": cases, "violations": viol, "sample": {"source": TEMPLATES[5]}}


def replay(case):
    return {"failing": True, "call": case["source"], "result": case["got"]}


if __name__ == "__main__":
    main(run, replay)
