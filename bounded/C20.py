"""Bounded stand-in for C20: every span reported by static analysis / tag analysis indexes
its template's source at the reported name; every LiquidError raised while parsing a
malformed source carries a position inside its own source and str(err) succeeds."""
import itertools
import re

from bounded.common import main
from liquid import DictLoader, Environment
from liquid.exceptions import LiquidError

PARTIALS = {"part": "{{ pv.a | upcase }}\n{% assign loc = 1 %}{{ loc }}", "p2": "line1\n  {% for z in pz %}{{ z.q }}{% endfor %}"}
TEMPLATES = [
    "{{ a }}", "{{ a.b.c | upcase | append: d }}", "text\n\n  {{ x['y'].z }}", "{% if a.b and c %}\n{{ d | default: e.f }}{% endif %}", "{% for i in items limit: n %}{{ i.name }}{{ forloop.index }}{% endfor %}",
    "{% liquid\n  assign q = r | plus: 1\n  if q > s\n    echo t.u\n  endif\n%}", "{% capture cap %}{{ v }}{% endcapture %}{{ cap }}", "{% include 'part' %}\n{% render 'p2', pz: w %}", "{{ ['quoted'].k }}", "{{ a[b.c][0] }}",
    "é{{ uni }}é\n{% assign é = ü %}", "{% case k %}{% when l %}{{ m }}{% endcase %}", "{% unless a contains b %}{{ c }}{% endunless %}", "{%- assign   spaced   =   val   -%}{{   spaced   }}", "{% tablerow t in tt cols: cc %}{{ t }}{% endtablerow %}",
    "{{ a | t: x: y }}" if False else "{{ a | join: b }}", "{% cycle c1, c2 %}", "{% echo e1 | append: e2 %}", "{% increment inc %}{{ inc }}",
]
BROKEN = ["{% if %}", "{{ a | }}", "\n\n{% for %}", "{{ a b }}", "{% nosuch %}", "{% if a %}", "text {{", "{% assign = 1 %}", "{{ a[ }}", "{% liquid\n if a\n echo %}", "{{ 'x }}", "{% endif %}", "{{ a || b }}", "{% for i in (1..) %}{% endfor %}", "é\n{{ ü | }}", "{% case %}", "{{ a ! }}", "{{ a }}{% ", "{% if a = b %}{% endif %}", "x\ny\n{{ z | q: }}"]


def name_at(source, index, name):
    rest = source[index:]
    return rest.startswith(name) or re.match(r"\[\s*['\"]?" + re.escape(name), rest) is not None or re.match(r"['\"]" + re.escape(name), rest) is not None


def run(tier, seed):
    env = Environment(loader=DictLoader(PARTIALS))
    sources = dict(PARTIALS)
    viol = []
    cases = 0
    for src in TEMPLATES:
        t = env.from_string(src, name="main")
        srcs = dict(sources, main=src)
        try:
            a = t.analyze()
        except LiquidError as e:
            continue
        for kind, mapping in (("variables", a.variables), ("globals", a.globals), ("locals", a.locals), ("filters", a.filters), ("tags", a.tags)):
            for name, spans in mapping.items():
                for sp in spans:
                    sp = getattr(sp, "span", sp)
                    cases += 1
                    s = srcs.get(sp.template_name, src)
                    seg = name.split(".")[0].split("[")[0] if kind in ("variables", "globals") else name
                    if not (0 <= sp.index < len(s)) or not name_at(s, sp.index, seg):
                        viol.append({"id": "span-off", "witness": f"{kind}:{name}", "source": src, "got": f"{kind} {name!r} reported at {sp.template_name}:{sp.index} -> {s[sp.index:sp.index+12]!r}"})
                    try:
                        sp.line_col(s)
                    except Exception as e:  # noqa: BLE001
                        viol.append({"id": "line-col-raises", "witness": f"{kind}:{name}", "source": src, "got": repr(e)})
        ta = env.analyze_tags_from_string(src, name="main")
        for tname, spans in ta.all_tags.items():
            for sp in spans:
                cases += 1
                if not src[sp.index:].startswith(tname):
                    viol.append({"id": "tag-span-off", "witness": f"tag:{tname}", "source": src, "got": f"{tname} at {sp.index} -> {src[sp.index:sp.index+10]!r}"})
    combos = BROKEN + [a + b for a, b in itertools.product(BROKEN[:8] + ["ok {{ v }}\n"], BROKEN)] if tier == "thorough" else BROKEN + ["ok {{ v }}\n" + b for b in BROKEN] + [b + "\n{{ tail }}" for b in BROKEN]
    for src in combos:
        cases += 1
        try:
            env.from_string(src)
        except LiquidError as e:
            tok = getattr(e, "token", None)
            try:
                msg = str(e)
            except Exception as ex:  # noqa: BLE001
                viol.append({"id": "message-raises", "witness": "str(err):" + type(ex).__name__, "source": src, "got": repr(ex)})
                continue
            if tok is not None and tok.start_index >= 0:
                if tok.source != src and tok.source not in src:
                    viol.append({"id": "foreign-source", "witness": "foreign-source", "source": src, "got": repr(tok.source)[:60]})
                if not (0 <= tok.start_index <= len(tok.source)):
                    viol.append({"id": "position-outside", "witness": "position-outside", "source": src, "got": f"{tok.start_index} not in [0,{len(tok.source)}]"})
        except Exception as e:  # noqa: BLE001
            viol.append({"id": "non-liquid", "witness": type(e).__name__, "source": src, "got": repr(e)})
    return {"bound": f"{len(TEMPLATES)} templates (multi-line, liquid tags, nested paths, partials): every reported span; {len(combos)} malformed sources: every error position and message", "cases": cases, "distinct": cases, "violations": viol, "sample": {"source": TEMPLATES[5]}}


def replay(case):
    return {"failing": True, "call": case["source"], "result": case["got"]}


if __name__ == "__main__":
    main(run, replay)
