"""Bounded stand-in for C22: every name assembled from <= N pieces of separators, '.', '..',
absolute prefixes, NUL/control characters, unicode, suffixes, against a sandbox tree with
decoy files and symlinks outside the search path; file-system (plain, caching, reject
symlinks, sync/async) and package loaders: a response is the content of a file inside the
search directory, or TemplateNotFoundError -- nothing else."""
import asyncio
import itertools
import os
import shutil
import sys
import tempfile

from bounded.common import main
from liquid import CachingFileSystemLoader, Environment, FileSystemLoader
from liquid.builtin.loaders.package_loader import PackageLoader
from liquid.exceptions import TemplateNotFoundError

PIECES = ["t", "t.txt", "sub", "/", "..", ".", "\x00", "\n", "é", "secret.txt", "link", "linkdir", "x" * 300, "~", "\\", " ", ".txt", "pkgt"]


def build(root):
    inside = os.path.join(root, "search")
    os.makedirs(os.path.join(inside, "sub"))
    for rel, text in (("t.txt", "INSIDE-t"), ("t", "INSIDE-bare"), ("sub/t.txt", "INSIDE-sub"), ("é", "INSIDE-unicode")):
        with open(os.path.join(inside, rel), "w") as fd:
            fd.write(text)
    with open(os.path.join(root, "secret.txt"), "w") as fd:
        fd.write("OUTSIDE-secret")
    os.makedirs(os.path.join(root, "outdir"))
    with open(os.path.join(root, "outdir", "t.txt"), "w") as fd:
        fd.write("OUTSIDE-dir")
    os.symlink(os.path.join(root, "secret.txt"), os.path.join(inside, "link"))
    os.symlink(os.path.join(root, "outdir"), os.path.join(inside, "linkdir"))
    # a package
    pkg = os.path.join(root, "c22pkg")
    os.makedirs(os.path.join(pkg, "templates"))
    open(os.path.join(pkg, "__init__.py"), "w").close()
    with open(os.path.join(pkg, "templates", "pkgt.liquid"), "w") as fd:
        fd.write("INSIDE-pkg")
    os.makedirs(os.path.join(pkg, "templates", "partials"))
    with open(os.path.join(pkg, "templates", "partials", "p.liquid"), "w") as fd:
        fd.write("INSIDE-pkg-partial")
    with open(os.path.join(pkg, "outside.liquid"), "w") as fd:
        fd.write("OUTSIDE-pkg")
    return inside


def run(tier, seed):
    root = tempfile.mkdtemp(prefix="c22_")
    viol = []
    cases = 0
    try:
        inside = build(root)
        sys.path.insert(0, root)
        n = 3 if tier == "thorough" else 2
        names = set()
        for k in range(0, n + 1):
            for seq in itertools.product(PIECES, repeat=k):
                if k >= 2 and not any(p in ("/", "..", "\x00", "link", "linkdir") for p in seq):
                    continue
                names.add("".join(seq))
        names |= {os.path.join(root, "secret.txt"), "/" + os.path.join(root, "secret.txt"), os.path.join(root, "secret"), "../secret.txt", "sub/../../secret.txt", "linkdir/t.txt", "x" * 5000,
                  "partials/../../outside.liquid", "partials/../../../secret.txt", "partials/../pkgt.liquid", "sub/../../outdir/t.txt", "sub/../t.txt"}
        loaders = {
            "fs": FileSystemLoader(inside), "fs-ext": FileSystemLoader(inside, ext=".txt"), "fs-nosym": FileSystemLoader(inside, reject_symlinks=True),
            "fs-cache": CachingFileSystemLoader(inside), "fs-cache-nosym": CachingFileSystemLoader(inside, reject_symlinks=True), "pkg": PackageLoader("c22pkg"), "pkg-ext": PackageLoader("c22pkg", ext=".txt"),
        }
        for lname, loader in loaders.items():
            env = Environment(loader=loader)
            for name in sorted(names):
                for mode in ("sync", "async") if (lname in ("fs", "pkg", "fs-nosym", "fs-cache-nosym") and len(name) < 12) else ("sync",):
                    cases += 1
                    try:
                        src = loader.get_source(env, name) if mode == "sync" else asyncio.run(loader.get_source_async(env, name))
                        text = src[0]
                        via_link = "link" in name and not lname.endswith("-nosym")  # a link inside the directory is followed by design unless rejected
                        if not text.startswith("INSIDE") and not via_link:
                            viol.append({"id": "read-outside", "witness": f"{lname}:outside:" + ("absolute" if name.startswith("/") else "relative"), "source": f"{lname}.get_source({name[:60]!r})", "got": text[:40]})
                        elif lname.endswith("-nosym") and "link" in name:
                            viol.append({"id": "followed-symlink", "witness": f"{lname}:symlink", "source": f"{lname}.get_source({name[:60]!r})", "got": text[:40]})
                    except TemplateNotFoundError:
                        pass
                    except Exception as e:  # noqa: BLE001
                        viol.append({"id": "wrong-exception", "witness": f"{lname}:{type(e).__name__}", "source": f"{lname}.get_source({name[:60]!r}) [{mode}]", "got": f"{type(e).__name__}: {str(e)[:60]}"})
    finally:
        if root in sys.path:
            sys.path.remove(root)
        shutil.rmtree(root, ignore_errors=True)
    return {"bound": f"names of <= {n} pieces over {len(PIECES)} pieces (3+ pieces only with a separator/'..'/NUL/link) + 12 hand-written escapes; 7 loader configurations; sync and async", "cases": cases, "distinct": cases, "violations": viol, "sample": {"name": "sub/../../secret.txt"}}


def replay(case):
    return {"failing": True, "call": case["source"], "result": case["got"]}


if __name__ == "__main__":
    main(run, replay)
