"""Bounded stand-in for C19: run-time contract 'dynamic reads are contained in the static
report' -- templates over nested loops, captures, assignments, macros, with blocks and
partials included/rendered several times from different scopes are rendered with a tracking
mapping as the globals level; every root name that reaches that level, every filter applied
and every tag in the sources must be reported."""
import itertools
from collections.abc import Mapping

from bounded.common import main
from liquid import DictLoader, Environment
from liquid.exceptions import LiquidError
from liquid.extra import add_tags_and_filters


class Tracking(Mapping):
    def __init__(self, data):
        self.data = data
        self.reads = set()

    def __getitem__(self, k):
        self.reads.add(k)
        return self.data[k]

    def __iter__(self):
        return iter(self.data)

    def __len__(self):
        return len(self.data)


PARTIALS = {
    "p": "[{{ x }}{{ g1 | upcase }}]", "q": "({{ y.z | append: g2 }}{% assign inner = g3 %}{{ inner }})", "r": "{% for i in g4 %}{{ i }}{{ x }}{% endfor %}",
    "nest": "{% include 'p' %}{% render 'q', y: g5 %}",
}
USES = [
    "{% include 'p' %}", "{% render 'p' %}", "{% render 'p', x: g6 %}", "{% include 'q' %}", "{% render 'q', y: g7 %}", "{% include 'r' %}", "{% render 'r', x: 1 %}", "{% include 'nest' %}", "{{ x }}", "{{ g8 | default: g9 }}",
    "{% assign x = g10 %}", "{% capture x %}{{ g11 }}{% endcapture %}", "{% if x %}{{ g12.a }}{% endif %}", "{% echo y[g13] %}",
]
WRAPS = ["{}", "{{% for x in g14 %}}{}{{% endfor %}}", "{{% with x: g15 %}}{}{{% endwith %}}", "{{% if g16 %}}{}{{% else %}}{}{{% endif %}}", "{{% for y in g17 %}}{{% for x in y %}}{}{{% endfor %}}{{% endfor %}}", "{{% macro m x %}}{}{{% endmacro %}}{{% call m g18 %}}"]
DATA = {f"g{i}": v for i, v in enumerate(["", "a", "b", "c", [1, 2], {"z": "zz"}, "s6", {"z": 1}, None, "d9", "v10", "v11", {"a": 1}, "z", [[1, 2], [3]], "w15", True, [[1], [2]], "m18"])}
DATA.update({"x": "GX", "y": {"z": "GY", "zz": 1}})


def run(tier, seed):
    env = Environment(loader=DictLoader(PARTIALS))
    add_tags_and_filters(env)
    viol = []
    cases = 0
    seqs = list(itertools.product(USES, repeat=2)) if tier == "quick" else list(itertools.product(USES, repeat=2)) + list(itertools.product(USES[:8], repeat=3))
    for wrap in WRAPS:
        for seq in seqs:
            inner = "".join(seq)
            src = wrap.format(inner, inner) if wrap.count("{}") == 2 else wrap.format(inner)
            if wrap.count("{}") == 1 and len(seq) == 2 and wrap != "{}":
                src = wrap.format(seq[0]) + seq[1]   # second use after the block: a different scope
            cases += 1
            track = Tracking(DATA)
            try:
                t = env.from_string(src, matter=track)
                a = t.analyze()
                t.render()
            except LiquidError:
                continue
            except Exception as e:  # noqa: BLE001
                viol.append({"id": "crash", "witness": type(e).__name__, "source": src, "got": repr(e)})
                continue
            reported = set(a.globals)
            import re
            # the statement exempts names preceded in source order by an assignment to them
            missing = sorted(r for r in track.reads if r not in reported and r in DATA and not re.search(r"\{% (assign|capture) " + re.escape(r) + r"\b", src))
            if missing:
                viol.append({"id": "global-not-reported", "witness": "missing-global:" + ",".join(missing)[:30] + ("|include-twice" if src.count("include 'p'") + src.count("include 'q'") + src.count("include 'r'") + src.count("include 'nest'") >= 1 else ""), "source": src, "got": f"read {missing} from globals but analysis.globals = {sorted(reported)}"})
            used_filters = {f for f in ("upcase", "append", "default") if ("| " + f) in src or any(("| " + f) in PARTIALS[p] for p in PARTIALS if ("'" + p + "'") in src or (p in ("p", "q") and "'nest'" in src))}
            mf = sorted(f for f in used_filters if f not in a.filters)
            if mf:
                viol.append({"id": "filter-not-reported", "witness": "missing-filter:" + ",".join(mf), "source": src, "got": f"filters {mf} applied but analysis.filters = {sorted(a.filters)}"})
            for tag in ("include", "render", "assign", "capture", "for", "if", "echo", "with", "macro", "call"):
                if ("{% " + tag + " ") in src and tag not in a.tags:
                    viol.append({"id": "tag-not-reported", "witness": "missing-tag:" + tag, "source": src, "got": f"analysis.tags = {sorted(a.tags)}"})
    return {"bound": f"{len(WRAPS)} wrappers x all ordered pairs (thorough: + triples) of {len(USES)} uses over 4 partials; rendered with a tracking globals mapping", "cases": cases, "distinct": cases, "violations": viol, "sample": {"source": WRAPS[1].format(USES[0]) + USES[0]}}


def replay(case):
    return {"failing": True, "call": case["source"], "result": case["got"]}


if __name__ == "__main__":
    main(run, replay)
