"""Bounded stand-in for C09: (1) every source assembled from <= N pieces of block tags (incl.
unterminated and unbalanced ones) parses within a time budget in strict and lax mode;
(2) families of self-/mutually recursive partials, macros and extends chains with the
recursive call at block depths 0..D terminate with ContextDepthError /
TemplateInheritanceError -- never RecursionError and never a hang."""
import itertools
import signal

from bounded.common import main
from liquid import DictLoader, Environment, Mode
from liquid.exceptions import ContextDepthError, LiquidError, TemplateInheritanceError
from liquid.extra import add_tags_and_filters

PIECES = ["{% if a %}", "{% elsif b %}", "{% else %}", "{% endif %}", "{% for i in x %}", "{% endfor %}", "{% case a %}", "{% when 1 %}", "{% endcase %}", "{% unless a %}", "{% endunless %}", "{% capture c %}", "{% endcapture %}",
          "{% liquid if a", "{% raw %}", "{% comment %}", "{% endcomment %}", "{% tablerow i in x %}", "{% case %}", "{% when %}", "t", "{{ a", "{% translate %}", "{% plural %}", "{% endtranslate %}", "{% macro m %}", "{% block b %}", "{% with a: 1 %}"]


class Timeout(BaseException):  # not an Exception: the library wraps stray Exceptions into LiquidError
    pass


def _alarm(signum, frame):
    raise Timeout()


def run(tier, seed):
    viol = []
    cases = 0
    signal.signal(signal.SIGALRM, _alarm)
    n = 3 if tier == "thorough" else 2
    for mode in (Mode.STRICT, Mode.LAX):
        env = Environment(tolerance=mode)
        add_tags_and_filters(env)
        for k in range(1, n + 1):
            for seq in itertools.product(PIECES, repeat=k):
                src = "".join(seq)
                cases += 1
                signal.setitimer(signal.ITIMER_REAL, 2.0)
                try:
                    env.from_string(src).render(a=1, x=[1])
                except Timeout:
                    viol.append({"id": "hang", "witness": "hang:" + seq[-1][:16], "source": src, "got": "no result within 2 s"})
                except LiquidError:
                    pass
                except RecursionError:
                    viol.append({"id": "recursion", "witness": "parse-recursion", "source": src, "got": "RecursionError"})
                except Exception:  # noqa: BLE001
                    pass  # non-Liquid exceptions are C02's
                finally:
                    signal.setitimer(signal.ITIMER_REAL, 0)

    # "parsing any source text finishes promptly": markup that is never closed, followed by (or full
    # of) long runs of whitespace -- the lexer's patterns must not backtrack polynomially.  The budget
    # is generous (a linear scan of these 2-8 KB sources takes milliseconds); the backtracking
    # patterns needed minutes to hours.
    size = 8000 if tier == "thorough" else 2500
    adversarial = {"open-tag+spaces": "{%" + " " * size, "open-output+spaces": "{{" + " " * size, "open-tag+name+spaces": "{% x" + " " * size, "open-tag+newlines": "{%" + "\n" * size,
                   "open-output+name+spaces": "{{ x" + " " * size + "|", "open-tag+words": "{% x y" + " z" * size, "open-raw+spaces": "{% raw" + " " * size, "open-liquid+lines": "{% liquid" + "\n  " * size,
                   "many-open-tags": ("{% " + " " * 40) * (size // 40), "hyphens": "{%-" + " -" * size, "open-comment+spaces": "{% comment %}" + " " * size}
    env = Environment()
    for label, src in adversarial.items():
        cases += 1
        signal.setitimer(signal.ITIMER_REAL, 20.0)
        try:
            env.from_string(src)
        except Timeout:
            viol.append({"id": "hang", "witness": "slow-lexing:" + label, "source": src[:12] + f"... ({len(src)} characters)", "got": "no result within 20 s"})
        except LiquidError:
            pass
        except Exception:  # noqa: BLE001
            pass
        finally:
            signal.setitimer(signal.ITIMER_REAL, 0)

    def nest(d, inner):
        return "{% if true %}" * d + inner + "{% endif %}" * d

    depths = (0, 1, 5, 10, 20, 29) if tier == "thorough" else (0, 5, 20, 29)
    fams = {
        "include-self": lambda d: ({"rec": nest(d, "{% include 'rec' %}")}, "{% include 'rec' %}", ContextDepthError),
        "render-self": lambda d: ({"rec": nest(d, "{% render 'rec' %}")}, "{% render 'rec' %}", ContextDepthError),
        "mutual-include": lambda d: ({"a": nest(d, "{% include 'b' %}"), "b": nest(d, "{% include 'a' %}")}, "{% include 'a' %}", ContextDepthError),
        "mutual-render": lambda d: ({"a": nest(d, "{% render 'b' %}"), "b": nest(d, "{% render 'a' %}")}, "{% render 'a' %}", ContextDepthError),
        "macro-renders-self": lambda d: ({"p": "{% macro m %}" + nest(d, "{% render 'p' %}") + "{% endmacro %}{% call m %}"}, "{% render 'p' %}", ContextDepthError),
        "extends-cycle": lambda d: ({"a": "{% extends 'b' %}", "b": nest(d, "") + "{% extends 'a' %}"}, "{% extends 'a' %}", TemplateInheritanceError),
        "extends-cycle-in-directory": lambda d: ({"dir/a": "{% extends 'dir/b' %}", "dir/b": nest(d, "") + "{% extends 'dir/a' %}"}, "{% extends 'dir/a' %}", TemplateInheritanceError),
        "block-render-self": lambda d: ({"base": "{% block x %}" + nest(d, "{% render 'child' %}") + "{% endblock %}", "child": "{% extends 'base' %}"}, "{% render 'child' %}", ContextDepthError),
    }
    import asyncio
    for fname, mk, use_async in [(f_, m_, a_) for f_, m_ in fams.items() for a_ in (False, True)]:
        for d in (depths if not use_async else depths[:2]):
            parts, src, exc = mk(d)
            cases += 1
            env = Environment(loader=DictLoader(parts))
            add_tags_and_filters(env)
            signal.setitimer(signal.ITIMER_REAL, 20.0)
            try:
                if use_async:
                    asyncio.run(env.from_string(src).render_async())
                else:
                    env.from_string(src).render()
                got = "completed"
            except Timeout:
                got = "hang"
            except exc:
                got = "cut-off"
            except RecursionError:
                got = "RecursionError"
            except LiquidError as e:
                got = "RecursionError(wrapped)" if isinstance(e.__cause__ or e.__context__, RecursionError) or "recursion" in str(e).lower() or "unexpected liquid parsing error" in str(e) else f"other:{type(e).__name__}"
            finally:
                signal.setitimer(signal.ITIMER_REAL, 0)
            if got != "cut-off":
                viol.append({"id": "not-cut-off", "witness": f"stack-exhausted:block-depth>={10 if d >= 10 else d}" if "Recursion" in got else f"{fname}:{got}{':async' if use_async else ''}", "source": f"{fname}{' (async)' if use_async else ''} at block depth {d}: {src}", "got": got})
    return {"bound": f"sources of <= {n} pieces over {len(PIECES)} block-tag pieces, strict and lax, 2 s budget each; 6 recursive families at block depths {depths}", "cases": cases, "distinct": cases, "violations": viol, "sample": {"family": "include-self", "depth": 5}}


def replay(case):
    return {"failing": True, "call": case["source"], "result": case["got"]}


if __name__ == "__main__":
    main(run, replay)
