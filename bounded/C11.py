"""Bounded stand-in for C11 (run-time contract over an enumerated space; never counted as
proved).

1. delimiter-rewrite equivalence: templates are assembled from pieces written against six
   delimiter placeholders; each is rendered with the default delimiters and with every
   delimiter set of DELIMS (lengths 1-4: punctuation, letters, regex metacharacters), in an
   environment configured with that set; outputs (or error classes) must agree.
2. independence: environments with different delimiters, tolerance, tags and filters are
   created and used in interleaved orders; every (environment, template) result must equal
   the result the same configuration gives on its own with all memo tables cleared."""
import itertools
import random

from bounded.common import main
from liquid import Environment, Mode
from liquid.exceptions import LiquidError

DEFAULT = ("{%", "%}", "{{", "}}", "{#", "#}")

# (tag_start, tag_end, stmt_start, stmt_end, comment_start, comment_end)
DELIMS = [
    ("[%", "%]", "[[", "]]", "[#", "#]"),
    ("<%", "%>", "<=", "=>", "<!", "!>"),
    ("(*", "*)", "(.", ".)", "(?", "?)"),
    ("$(", ")$", "${", "}$", "$#", "#$"),
    ("^", "$", "~", "`", "\\", "/"),
    ("+", "?", "*", "!", "&", ";"),
    ("\\d", "\\w", "\\s", "\\b", "\\A", "\\Z"),
    ("[a", "z]", "[^", "^]", "(?:", ":?)"),
    ("@@", "@!", "@(", ")@", "@#", "#@"),
    ("BEG", "END", "OUT", "TUO", "REM", "MER"),
    ("<?", "?>", "<:", ":>", "<;", ";>"),
    ("{%%", "%%}", "{{{", "}}}", "{##", "##}"),
    ("«", "»", "‹", "›", "‘", "’"),
    ("a.*", "b.+", "c.?", "d|e", "#{2}", "g$^"),
    ("$$$$", "^^^^", "$.$.", "^.^.", "$+$+", "^+^+"),
    ("[", "]", "<", ">", "\\(", "\\)"),
]

# pieces: text with {0}..{5} standing for the six delimiters; `m` = marker of liquid-tag comments
PIECES = [
    "plain text ",
    "{2} v {3}",
    "{2}- v -{3}",
    "{2} v | upcase {3}",
    "{0} if v == 'V' {1}yes{0} else {1}no{0} endif {1}",
    "{0}- if w {1} w {0}- else -{1} nw {0} endif -{1}",
    "{0} for i in (1..3) {1}{2} i {3},{0} endfor {1}",
    "{0} assign q = 'Q' {1}{2} q {3}",
    "{0} capture c {1}x{2} v {3}y{0} endcapture {1}{2} c {3}",
    "{0} raw {1} {2} r {3} {0} if {1} {0} endraw {1}",
    "{0} raw -{1} {2} r {3} {0}- endraw {1}",
    "{0} comment {1} c {2} v {3} {0} endcomment {1}",
    "{0} # inline comment {1}",
    "{0} doc {1} d {0} enddoc {1}",
    "{4} shorthand comment {5}",
    "{4}- shorthand {2} v {3} -{5}",
    "{0} liquid\n  assign z = 'Z'\n  echo z\n{1}",
    "{0} liquid\n  {m} a comment line\n  echo v\n{1}",
    "{0} case v {1}{0} when 'V' {1}one{0} else {1}other{0} endcase {1}",
    "{0} unless w {1}u{0} endunless {1}",
    "{0} cycle 'a', 'b' {1}{0} increment n {1}",
    "  \n {0}- echo v -{1} \n  ",
    "{0} tablerow i in (1..2) {1}{2} i {3}{0} endtablerow {1}",
    # unclosed markup at the end of a template is an error naming this configuration's delimiter
]
TAILS = ["", " tail", " {2} v", " {0} if v"]


def collide(d):
    """delimiter strings that are substrings of one another or of the piece text"""
    body = "".join(PIECES + TAILS).replace("{m}", "")
    for i in range(6):
        body = body.replace("{%d}" % i, "\x00")
    for i, a in enumerate(d):
        if not a or "-" in a or a.strip() != a:
            return True
        if a in body:
            return True
        for j, b in enumerate(d):
            if i != j and (a in b or b in a):
                return True
        # concatenations with the optional hyphen / following text must not form another delimiter
    joined = "\x01".join(d)
    return False


def marker(d, comments):
    if not comments:
        return "#"
    m = d[4].replace("{", "")
    return m or "#"


def build(piece, d, comments):
    out = piece
    for i in range(6):
        out = out.replace("{%d}" % i, "\x00%d" % i)
    out = out.replace("{m}", marker(d, comments))
    for i in range(6):
        out = out.replace("\x00%d" % i, d[i])
    return out


RAW_BODIES = [" {2} r {3} {0} if {1} ", " {2} r {3} "]


def raw_rewritten(want, d):
    """raw text is emitted verbatim, so the expected output shows the rewritten delimiters
    exactly where the default output shows the raw block's text"""
    for body in RAW_BODIES:
        want = want.replace(build(body, DEFAULT, True), build(body, d, True))
    return want


def env_for(d, comments, **kw):
    return Environment(tag_start_string=d[0], tag_end_string=d[1], statement_start_string=d[2], statement_end_string=d[3],
                       template_comments=comments, comment_start_string=d[4], comment_end_string=d[5], **kw)


def outcome(env, src, data):
    try:
        return env.from_string(src).render(**data)
    except LiquidError as e:
        return "!" + type(e).__name__
    except Exception as e:  # noqa: BLE001
        return "!!" + type(e).__name__


DATA = {"v": "V", "w": None, "r": "R"}


def templates(tier, rnd):
    out = []
    for p in PIECES:
        for t in TAILS[:2]:
            out.append([p, t])
    pairs = list(itertools.product(range(len(PIECES)), repeat=2))
    rnd.shuffle(pairs)
    for a, b in pairs[: (len(pairs) if tier == "thorough" else 120)]:
        out.append([PIECES[a], " ", PIECES[b]])
    for p in PIECES[:8]:
        for t in TAILS[2:]:
            out.append([p, t])
    return out


def run(tier, seed):
    rnd = random.Random(seed)
    viol = []
    cases = 0
    sets = [d for d in DELIMS if not collide(d)]
    skipped = [d for d in DELIMS if collide(d)]
    tpls = templates(tier, rnd)
    for comments in (True, False):
        ref_env = env_for(DEFAULT, comments)
        for d in sets:
            env = env_for(d, comments)
            for parts in tpls:
                if not comments and any("{4}" in p for p in parts):
                    continue
                src0 = "".join(build(p, DEFAULT, comments) for p in parts)
                src1 = "".join(build(p, d, comments) for p in parts)
                want = outcome(ref_env, src0, DATA)
                got = outcome(env, src1, DATA)
                cases += 1
                want = raw_rewritten(want, d)
                if want != got:
                    viol.append({"id": "rewrite-changes-output", "witness": f"rewrite:{DELIMS.index(d)}:{PIECES.index(parts[0]) if parts[0] in PIECES else 'x'}", "delims": list(d), "comments": comments,
                                 "source": src1, "default_source": src0, "got": got, "want": want})
    # ---- independence of environments
    def extra_filter(x):
        return f"<{x}>"
    configs = []
    for i, d in enumerate(sets[:6]):
        configs.append((d, True, Mode.LAX if i % 2 else Mode.STRICT, i % 3 == 0))
    configs.append((DEFAULT, False, Mode.STRICT, False))
    configs.append((DEFAULT, False, Mode.LAX, True))
    configs.append((DEFAULT, True, Mode.WARN, False))
    probe = ["{2} v | shout {3}", "{0} nosuchtag {1}x", "{0} if v {1}{2} v {3}{0} endif {1}", "{2} v | upcase {3}{4} c {5}", "{0} liquid\n echo v\n{1}"]

    def mk(cfg):
        d, comments, mode, with_filter = cfg
        e = env_for(d, comments, tolerance=mode)
        if with_filter:
            e.add_filter("shout", extra_filter)
        else:
            e.tags.pop("echo", None) if mode == Mode.LAX else None
        return e

    def clear():
        from liquid.environment import get_implicit_environment
        from liquid.lex import get_lexer
        from liquid.parser import get_parser
        for f in (get_lexer, get_parser, get_implicit_environment):
            f.cache_clear()

    import warnings
    alone = {}
    with warnings.catch_warnings():
        warnings.simplefilter("ignore")
        for ci, cfg in enumerate(configs):
            clear()
            e = mk(cfg)
            for pi, p in enumerate(probe):
                alone[(ci, pi)] = outcome(e, build(p, cfg[0], cfg[1]), DATA)
        rounds = 40 if tier == "thorough" else 8
        for rd in range(rounds):
            clear()
            order = list(range(len(configs)))
            rnd.shuffle(order)
            envs = {}
            steps = [(ci, pi) for ci in order for pi in range(len(probe))]
            rnd.shuffle(steps)
            parsed = {}
            for ci, pi in steps:
                if ci not in envs:
                    envs[ci] = mk(configs[ci])
                cfg = configs[ci]
                got = outcome(envs[ci], build(probe[pi], cfg[0], cfg[1]), DATA)
                cases += 1
                if got != alone[(ci, pi)]:
                    viol.append({"id": "environment-affected-by-another", "witness": f"interleave:{ci}:{pi}", "config": repr(cfg), "source": build(probe[pi], cfg[0], cfg[1]), "got": got, "want": alone[(ci, pi)], "round": rd})
    clear()
    return {"bound": f"{len(sets)} delimiter sets (lengths 1-4; {len(skipped)} listed sets skipped as colliding) x {len(tpls)} templates of <= 3 pieces x comments on/off; {len(configs)} environment configurations x {len(probe)} probes in {rounds} shuffled interleavings",
            "cases": cases, "distinct": cases, "violations": viol, "sample": {"source": build(PIECES[4], sets[0], True), "delims": list(sets[0])}}


def replay(case):
    if "delims" in case:
        d = tuple(case["delims"])
        got = outcome(env_for(d, case["comments"]), case["source"], DATA)
        want = raw_rewritten(outcome(env_for(DEFAULT, case["comments"]), case["default_source"], DATA), d)
        return {"failing": got != want, "call": case["source"], "result": got, "want": want}
    return {"failing": None, "call": case.get("source"), "result": "interleaving is replayed by re-running the bounded check"}


if __name__ == "__main__":
    main(run, replay)
