"""Bounded stand-in for C14: run-time contract 'a name resolves to its innermost binding'
over all 2^7 combinations of binders of one name, plus a fixed family of path forms."""
import itertools

from bounded.common import main
from liquid import DictLoader, Environment

BINDERS = ["for", "assign", "capture", "render_arg", "template_global", "env_global", "counter"]


def build(combo):
    """returns (source, render_args, template_globals, env_globals, expected)"""
    pre = ""
    expected = ""
    if "counter" in combo:
        pre += "{% increment x %}"
        expected = "1"
        out_prefix = "0"
    else:
        out_prefix = ""
    env_g = {"x": "E"} if "env_global" in combo else {}
    if env_g:
        expected = "E"
    tg = {"x": "T"} if "template_global" in combo else {}
    if tg:
        expected = "T"
    args = {"x": "R"} if "render_arg" in combo else {}
    if args:
        expected = "R"
    if "capture" in combo:
        pre += "{% capture x %}C{% endcapture %}"
        expected = "C"
    if "assign" in combo:
        pre += "{% assign x = 'A' %}"
        expected = "A"
    body = "{{ x }}"
    if "for" in combo:
        body = "{% for x in (7..7) %}{{ x }}{% endfor %}"
        after = expected
        expected = "7"
        body += "|{{ x }}"  # block-scoped name vanishes after the block
        expected += "|" + after
    # counters output their previous value when incremented; `increment` when a variable
    # of the same name is bound elsewhere still uses its own namespace
    return pre + body, args, tg, env_g, out_prefix + expected


PATHS = [
    ("{{ a.b.c }}", "1"), ("{{ a['b'].c }}", "1"), ("{{ a[\"b\"]['c'] }}", "1"), ("{{ arr[0] }}", "x"), ("{{ arr[-1] }}", "z"), ("{{ arr[-3] }}", "x"),
    ("{{ arr[5] }}", ""), ("{{ arr[-4] }}", ""), ("{{ arr.size }}", "3"), ("{{ arr.first }}", "x"), ("{{ arr.last }}", "z"), ("{{ a.size }}", "1"),
    ("{{ sized.size }}", "own"), ("{{ a.b.size }}", "1"), ("{{ s.size }}", "3"), ("{{ a[key].c }}", "1"), ("{{ arr[idx] }}", "y"), ("{{ a[nest.k].c }}", "1"),
    ("{{ a.missing }}", ""), ("{{ a.b.c.d }}", ""), ("{{ missing.x.y }}", ""), ("{{ h.first[0] }}", "k1"), ("{{ h.first[1] }}", "v1"), ("{{ mt.first }}", ""),
    ("{{ arr['0'] }}", ""), ("{{ s.first }}", ""), ("{{ s[0] }}", ""), ("{{ n.size }}", ""),
]
DATA = {"a": {"b": {"c": 1}}, "arr": ["x", "y", "z"], "sized": {"size": "own"}, "s": "abc", "key": "b", "idx": 1, "nest": {"k": "b"}, "h": {"k1": "v1", "k2": "v2"}, "mt": [], "n": 5}


def run(tier, seed):
    viol = []
    cases = 0
    for r in range(len(BINDERS) + 1):
        for combo in itertools.combinations(BINDERS, r):
            src, args, tg, eg, want = build(set(combo))
            cases += 1
            try:
                got = Environment(globals=eg).from_string(src, globals=tg).render(**args)
            except Exception as e:  # noqa: BLE001
                got = f"raised {type(e).__name__}: {e}"
            if got != want:
                viol.append({"id": "innermost-binding", "witness": "binders:" + "+".join(combo), "source": src, "args": args, "tg": tg, "eg": eg, "got": got, "want": want})
    inc_env = Environment(loader=DictLoader({"p": "{{ a }}-{{ b }}-{{ c }}", "q": "{{ title }}/{{ name }}"}))
    for src, want, mode in [("{% assign a = 'A' %}{% assign b = 'B' %}{% include 'p', a: b, b: a %}", "B-A-", "both"), ("{% assign name = 'outer' %}{% include 'q', name: 'x', title: name %}", "outer/x", "both"),
                            ("{% assign a = 'A' %}{% include 'p', c: a, a: 'Z' %}{{ a }}", "Z--AA", "both"), ("{% assign a = 'A' %}{% render 'p', a: 'Q', b: a %}", "Q-A-", "both")]:
        import asyncio
        for m in ("sync", "async"):
            cases += 1
            try:
                t = inc_env.from_string(src)
                got = t.render() if m == "sync" else asyncio.run(t.render_async())
            except Exception as e:  # noqa: BLE001
                got = f"raised {type(e).__name__}: {e}"
            if got != want:
                viol.append({"id": "argument-scope", "witness": f"args-evaluated-in-caller-scope:{m}", "source": src, "got": got, "want": want})
    for src, want in PATHS:
        cases += 1
        try:
            got = Environment().from_string(src).render(**DATA)
        except Exception as e:  # noqa: BLE001
            got = f"raised {type(e).__name__}: {e}"
        if got != want:
            viol.append({"id": "path-resolution", "witness": "path:" + src, "source": src, "got": got, "want": want})
    return {"bound": "all 128 subsets of 7 binders of one name; 28 path forms over fixed nested data", "cases": cases, "distinct": cases, "violations": viol, "sample": {"binders": BINDERS, "path": PATHS[0]}}


def replay(case):
    if case["id"] == "path-resolution":
        got = Environment().from_string(case["source"]).render(**DATA)
    else:
        got = Environment(globals=case["eg"]).from_string(case["source"], globals=case["tg"]).render(**case["args"])
    return {"failing": got != case["want"], "call": case["source"], "result": got}


if __name__ == "__main__":
    main(run, replay)
