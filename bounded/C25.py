"""Bounded stand-in for C25 (run-time contract; never counted as proved): every clause of the
statement as a reference function written from the statement, checked against the real
filters (called through templates) over typed value pools, exhaustively for small sizes."""
import itertools
import math
from decimal import Decimal
from fractions import Fraction

from bounded.common import main
from liquid import Environment
from liquid.exceptions import LiquidError

ENV = Environment()
ALPHA = ["", "a", "B", " a b ", "aB c", "\tx\n", "a,b", ",a,,b,", "abc def ghi", "ß", "a  b", ","]
INTS = [0, 1, -1, 2, -2, 3, 7, -7, 10, 10**30 + 1, -(10**30) - 1]
FLOATS = [0.0, 0.5, -0.5, 1.5, -1.5, 2.0, 1e3]
NUMSTR = ["1", "-2", "3.5", "0", " 4 "]
LISTS = [[], [1], [3, 1, 2], [1, 1, 2, 1], [None, 1, None], ["b", "A", "a", "B"], [[1, 2], [3]], [1, "a", None], ["x", "x"]]
RECS = [[], [{"k": "a", "ok": True}, {"k": "b", "ok": False}, {"k": "a"}], [{"k": 1, "ok": 0}, {"k": None, "ok": ""}, {"ok": None}, {"k": 1, "ok": False}], [{"k": "b"}, {"k": "B"}, {"k": "a"}]]
OTHER = [None, True, False, {}, {"a": 1}, 5, 2.5]


def call(flt, left, *args, **kw):
    """apply a filter through a template; -> ('ok', python value) | ('err', class name)"""
    names = {f"a{i}": a for i, a in enumerate(args)}
    names.update({f"k_{k}": v for k, v in kw.items()})
    arglist = ", ".join([f"a{i}" for i in range(len(args))] + [f"{k}: k_{k}" for k in kw])
    src = "{% assign r = left | " + flt + (": " + arglist if arglist else "") + " %}"
    box = {}

    class Probe(dict):
        pass
    try:
        t = ENV.from_string(src + "{{ r | probe }}")
        ENV.filters["probe"] = lambda v: box.setdefault("v", v) and ""
        t.render(left=left, **names)
        return ("ok", box.get("v"))
    except LiquidError as e:
        return ("err", type(e).__name__)
    except Exception as e:  # noqa: BLE001
        return ("crash", type(e).__name__)


def same(a, b):
    """equality that tells 1 from 1.0 from True"""
    if type(a) is not type(b):
        return isinstance(a, (list, tuple)) and isinstance(b, (list, tuple)) and len(a) == len(b) and all(same(x, y) for x, y in zip(a, b))
    if isinstance(a, (list, tuple)):
        return len(a) == len(b) and all(same(x, y) for x, y in zip(a, b))
    return a == b


def num_of(x):
    """exact value of a numeric operand as the filters document it (numeric strings count)"""
    if isinstance(x, bool):
        return None
    if isinstance(x, int):
        return Fraction(x)
    if isinstance(x, float):
        return Fraction(Decimal(str(x)))
    if isinstance(x, str):
        try:
            return Fraction(Decimal(x.strip()))
        except Exception:  # noqa: BLE001
            return None
    return None


def is_inty(x):
    return (isinstance(x, int) and not isinstance(x, bool)) or (isinstance(x, str) and x.strip().lstrip("-").isdigit())


def run(tier, seed):
    viol, cases = [], 0

    def check(cond, ident, witness, source, got):
        nonlocal cases
        cases += 1
        if not cond:
            viol.append({"id": ident, "witness": witness, "source": source, "got": repr(got)[:160]})

    # ---- size
    for v in ALPHA + LISTS + OTHER + INTS[:4]:
        st, r = call("size", v)
        want = len(v) if isinstance(v, (str, list, dict)) else 0
        check(st == "ok" and same(r, want), "size", f"size:{type(v).__name__}", f"{v!r} | size", (st, r))
    # ---- case and whitespace
    for s in ALPHA:
        for f, ref in (("upcase", str.upper), ("downcase", str.lower), ("strip", str.strip), ("lstrip", str.lstrip), ("rstrip", str.rstrip), ("capitalize", str.capitalize)):
            st, r = call(f, s)
            check(st == "ok" and same(r, ref(s)), "string-op", f"{f}", f"{s!r} | {f}", (st, r))
    # ---- split / join round trip
    for s in [x for x in ALPHA if x]:
        for sep in (",", " ", "b", "ab", "  "):
            st, parts = call("split", s, sep)
            if st != "ok":
                check(False, "split-join", f"split:{sep!r}", f"{s!r} | split: {sep!r}", (st, parts))
                continue
            st2, back = call("join", parts, sep)
            w = "value-equals-separator" if s == sep else ("whitespace-separator" if sep == " " and (s != s.strip() or "  " in s or "\t" in s or "\n" in s) else repr(sep))
            check(st2 == "ok" and back == s, "split-join", f"roundtrip:{w}", f"{s!r} | split: {sep!r} | join: {sep!r}", (parts, back))
    # ---- array filters: new lists, membership, order
    def flat(v):
        out = []
        for x in v:
            if isinstance(x, (list, tuple)):
                out.extend(flat(x))
            else:
                out.append(x)
        return out
    for xs0 in LISTS:
        xs = flat(xs0)   # array filters work on the flattened input (documented: sequence_filter)
        st, r = call("reverse", xs0)
        check(st == "ok" and same(r, list(reversed(xs))) and r is not xs0, "array", "reverse:nested", f"{xs0!r} | reverse", (st, r))
        st, r = call("reverse", xs)
        check(st == "ok" and same(r, list(reversed(xs))) and r is not xs, "array", "reverse", f"{xs!r} | reverse", (st, r))
        st, r = call("compact", xs)
        check(st == "ok" and same(r, [x for x in xs if x is not None]) and r is not xs, "array", "compact", f"{xs!r} | compact", (st, r))
        st, r = call("uniq", xs)
        want = []
        for x in xs:
            if not any(x == y for y in want):
                want.append(x)
        check(st == "ok" and same(r, want) and r is not xs, "array", "uniq", f"{xs!r} | uniq", (st, r))
        for ys in LISTS[:5]:
            st, r = call("concat", xs, ys)
            check(st == "ok" and same(r, list(xs) + list(ys)) and r is not xs and r is not ys, "array", "concat", f"{xs!r} | concat: {ys!r}", (st, r))
        homogeneous = xs and (all(isinstance(x, int) for x in xs) or all(isinstance(x, str) for x in xs))
        if homogeneous or not xs:
            st, r = call("sort", xs)
            check(st == "ok" and same(r, sorted(xs)) and r is not xs, "array", "sort", f"{xs!r} | sort", (st, r))
        if all(isinstance(x, str) for x in xs):
            st, r = call("sort_natural", xs)
            check(st == "ok" and same(r, sorted(xs, key=str.lower)) and r is not xs, "array", "sort_natural", f"{xs!r} | sort_natural", (st, r))
        st, r = call("first", xs)
        check(st == "ok" and same(r, xs[0] if xs else None), "select", "first", f"{xs!r} | first", (st, r))
        st, r = call("last", xs)
        check(st == "ok" and same(r, xs[-1] if xs else None), "select", "last", f"{xs!r} | last", (st, r))
    for recs in RECS:
        st, r = call("map", recs, "k")
        check(st == "ok" and len(r) == len(recs) and all((x == d.get("k")) or ("k" not in d and x is None) or (d.get("k") is None) for x, d in zip(r, recs)), "array", "map", f"{recs!r} | map: 'k'", (st, r))
        for key, val in itertools.product(("k", "ok"), ("a", "b", 1, True, False, 0, "", None)):
            st, w = call("where", recs, key, val) if val is not None else call("where", recs, key)
            st2, rj = call("reject", recs, key, val) if val is not None else call("reject", recs, key)
            if val is None:
                want_w = [d for d in recs if d.get(key) not in (False, None)]
            else:
                want_w = [d for d in recs if key in d and d[key] == val]
            want_r = [d for d in recs if not any(d is x for x in want_w)]
            ok = st == "ok" and st2 == "ok" and len(w) == len(want_w) and all(a is b for a, b in zip(w, want_w)) and len(rj) == len(want_r) and all(a is b for a, b in zip(rj, want_r))
            check(ok, "array", f"where-reject:{type(val).__name__}:{val!r}", f"{recs!r} | where/reject: {key!r}, {val!r}", (w, rj))
    # ---- slice
    for s in ["", "a", "abcdef"] + [[1, 2, 3, 4]]:
        for off in range(-7, 8):
            for ln in (None, -3, -1, 0, 1, 2, 10):
                st, r = call("slice", s, off) if ln is None else call("slice", s, off, ln)
                n = len(s)
                start = off if off >= 0 else n + off
                length = 1 if ln is None else ln
                # the window [start, start+length) of positions, intersected with the value
                want = s[max(start, 0):max(start + length, 0)]
                check(st == "ok" and same(r, want), "select", f"slice:{type(s).__name__}", f"{s!r} | slice: {off}, {ln}", (st, r))
    # ---- truncate / truncatewords
    for s in ALPHA + ["abcdefghij"]:
        for n in (-1, 0, 1, 2, 3, 4, 5, 20):
            for ell in ("...", "", "!", "12345"):
                st, r = call("truncate", s, n, ell)
                ok = st == "ok" and (r == s if len(s) <= n else (r.endswith(ell) and len(r) <= max(n, len(ell))))
                check(ok, "truncate", f"truncate:{'short' if len(s) <= n else 'long'}", f"{s!r} | truncate: {n}, {ell!r}", (st, r))
        for n in (1, 2, 3, 10):
            st, r = call("truncatewords", s, n)
            ok = st == "ok" and len(r.replace("...", " ").split()) <= n + 0 or (st == "ok" and len(s.split()) <= n and r.split() == s.split())
            check(ok, "truncate", "truncatewords", f"{s!r} | truncatewords: {n}", (st, r))
    # ---- arithmetic against exact arithmetic
    nums = INTS + FLOATS + NUMSTR
    if tier != "thorough":
        nums = INTS[:9] + FLOATS[:5] + NUMSTR[:3]
    for a, b in itertools.product(nums, nums):
        fa, fb = num_of(a), num_of(b)
        both_int = is_inty(a) and is_inty(b)
        exp = {"plus": fa + fb, "minus": fa - fb, "times": fa * fb, "at_least": max(fa, fb), "at_most": min(fa, fb)}
        if fb != 0:
            exp["divided_by"] = Fraction(math.floor(fa / fb)) if both_int else fa / fb
            if both_int:
                exp["modulo"] = fa - fb * math.floor(fa / fb)
        for f, want in exp.items():
            st, r = call(f, a, b)
            if st != "ok" or isinstance(r, bool) or not isinstance(r, (int, float)):
                check(False, "arith", f"{f}:type", f"{a!r} | {f}: {b!r}", (st, r))
                continue
            if both_int:
                ok = isinstance(r, int) and Fraction(r) == want
            else:
                got = Fraction(Decimal(repr(r))) if isinstance(r, float) else Fraction(r)
                ok = got == want or (want != 0 and abs(got - want) / abs(want) < Fraction(1, 10**12)) or (want == 0 and abs(got) < Fraction(1, 10**12))
            check(ok, "arith", f"{f}:{'int' if both_int else 'decimal'}", f"{a!r} | {f}: {b!r}", (st, r, str(want)))
        for f in ("divided_by", "modulo"):
            if fb == 0:
                st, r = call(f, a, b)
                check(st == "err", "arith", f"{f}:zero", f"{a!r} | {f}: {b!r}", (st, r))
    for a in nums:
        fa = num_of(a)
        for f, want in (("abs", abs(fa)), ("ceil", Fraction(math.ceil(fa))), ("floor", Fraction(math.floor(fa)))):
            st, r = call(f, a)
            ok = st == "ok" and not isinstance(r, bool) and isinstance(r, (int, float)) and Fraction(Decimal(repr(r)) if isinstance(r, float) else r) == want
            check(ok, "arith", f"{f}", f"{a!r} | {f}", (st, r, str(want)))
        st, r = call("round", a)
        # round half to even or half away from zero are both 'exact' roundings; the result must be an adjacent integer
        ok = st == "ok" and isinstance(r, int) and abs(Fraction(r) - fa) <= Fraction(1, 2)
        check(ok, "arith", "round", f"{a!r} | round", (st, r))
    # ---- default
    sentinel = "DFLT"
    for v in [None, False, "", [], {}] + ["x", 0, 0.0, [0], {"a": 1}, True, " "]:
        st, r = call("default", v, sentinel)
        empty = v is None or v is False or (isinstance(v, (str, list, dict)) and len(v) == 0)
        check(st == "ok" and (r == sentinel if empty else (r is v or same(r, v))), "default", f"default:{v!r}", f"{v!r} | default: 'DFLT'", (st, r))
    st, r = call("default", False, sentinel, allow_false=True)
    check(st == "ok" and r is False, "default", "default:allow_false", "false | default: 'DFLT', allow_false: true", (st, r))
    t = ENV.from_string("{{ nosuch | default: 'DFLT' }}|{{ nosuch.deeper | default: 'DFLT' }}")
    check(t.render() == "DFLT|DFLT", "default", "default:undefined", "nosuch | default", t.render())
    return {"bound": "typed pools: 11 strings, 11 ints (huge and negative), 7 floats, 5 numeric strings, 9 lists, 4 record lists, 7 other values; every filter of the statement against a reference written from the statement",
            "cases": cases, "distinct": cases, "violations": viol, "sample": {"source": "[3, 1, 2] | sort"}}


def replay(case):
    return {"failing": True, "call": case["source"], "result": case["got"]}


if __name__ == "__main__":
    main(run, replay)
