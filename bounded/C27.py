"""Bounded stand-in for C27: run-time contract on macro/call binding and with-block scoping
over all signatures with 0..3 parameters (with/without defaults), 0..4 positional and 0..3
keyword arguments drawn from matching, non-matching and duplicate names."""
import itertools

from bounded.common import main
from liquid import Environment
from liquid.extra import CallTag, MacroTag, WithTag


def env():
    e = Environment()
    e.add_tag(MacroTag)
    e.add_tag(CallTag)
    e.add_tag(WithTag)
    return e


def expected(params, defaults, pos, kws):
    bound = {}
    for i, p in enumerate(params):
        if i < len(pos):
            bound[p] = pos[i]
        elif defaults[i] is not None:
            bound[p] = defaults[i]
        else:
            bound[p] = ""
    xk = {}
    for n, v in kws:
        if n in params:
            bound[n] = v
        else:
            xk[n] = v
    xa = pos[len(params):]
    body = "".join(f"[{bound[p]}]" for p in params) + "|" + ",".join(xa) + "|" + ",".join(f"{k}={v}" for k, v in xk.items())
    return body


def source(params, defaults, pos, kws):
    sig = ", ".join(p if d is None else f"{p}: '{d}'" for p, d in zip(params, defaults))
    body = "".join("[{{ " + p + " }}]" for p in params) + "|{{ args | join: ',' }}|{% for kv in kwargs %}{{ kv[0] }}={{ kv[1] }}{% unless forloop.last %},{% endunless %}{% endfor %}"
    call = ", ".join([f"'{v}'" for v in pos] + [f"{n}: '{v}'" for n, v in kws])
    return "{% macro m " + sig + " %}" + body + "{% endmacro %}{% call m " + call + " %}"


def run(tier, seed):
    e = env()
    viol = []
    cases = 0
    names = ["p0", "p1", "zz"]
    for m in range(0, 4):
        params = [f"p{i}" for i in range(m)]
        for dmask in itertools.product([None, "d"], repeat=m):
            defaults = [None if d is None else f"D{i}" for i, d in enumerate(dmask)]
            for k in range(0, 5):
                pos = [f"a{i}" for i in range(k)]
                for q in range(0, 3 if tier == "quick" else 4):
                    for kwnames in itertools.product(names, repeat=q):
                        kws = [(n, f"k{i}") for i, n in enumerate(kwnames)]
                        cases += 1
                        src = source(params, defaults, pos, kws)
                        want = expected(params, defaults, pos, kws)
                        try:
                            got = e.from_string(src).render()
                        except Exception as ex:  # noqa: BLE001
                            got = f"raised {type(ex).__name__}: {ex}"
                        if got != want:
                            viol.append({"id": "macro-binding", "witness": f"m{m}k{k}q{q}", "source": src, "got": got, "want": want})
    # a call must not change what a later call of the same macro sees
    for sig, first, second, want in (("a, b: 'B'", "1, 2", "", "[1|2][|B]"), ("a: 'A'", "a: 9", "", "[9][A]"), ("a, b", "b: 2", "1", "[|2][1|]"), ("a: 'A', b: 'B'", "'x', 'y'", "b: 'z'", "[x|y][A|z]")):
        cases += 1
        nparams = sig.count(",") + 1
        body = "[" + "|".join("{{ " + p.split(":")[0].strip() + " }}" for p in sig.split(",")) + "]"
        src = "{% macro f " + sig + " %}" + body + "{% endmacro %}{% call f " + first + " %}{% call f " + second + " %}"
        try:
            got = e.from_string(src).render()
        except Exception as ex:  # noqa: BLE001
            got = f"raised {type(ex).__name__}: {ex}"
        if got != want:
            viol.append({"id": "macro-binding", "witness": "call-sequence", "source": src, "got": got, "want": want})
    import asyncio
    withs = [
        ("{% assign a = 1 %}{% assign b = 2 %}{% with a: b, b: a %}{{ a }},{{ b }}{% endwith %}|{{ a }},{{ b }}", "2,1|1,2"),
        ("{% assign x = 'o' %}{% with x: 'i' %}{{ x }}{% endwith %}{{ x }}", "io"),
        ("{% with a: 1, b: 2 %}{{ a }}{{ b }}{% with a: 3 %}{{ a }}{{ b }}{% endwith %}{{ a }}{% endwith %}[{{ a }}{{ b }}]", "12321[]"),
        ("{% with a: 1 %}{% assign a = 9 %}{{ a }}{% endwith %}{{ a }}", "19"),
    ]
    for src, want in withs:
        cases += 1
        try:
            got = e.from_string(src).render()
        except Exception as ex:  # noqa: BLE001
            got = f"raised {type(ex).__name__}: {ex}"
        if got != want:
            viol.append({"id": "with-scope", "witness": "with", "source": src, "got": got, "want": want})
        try:
            got = asyncio.run(e.from_string(src).render_async())
        except Exception as ex:  # noqa: BLE001
            got = f"raised {type(ex).__name__}: {ex}"
        if got != want:
            viol.append({"id": "with-scope", "witness": "with:async", "source": src, "got": got, "want": want})
    return {"bound": "macros with 0..3 params x default masks x 0..4 positional x 0..2(3) keyword args over names {p0,p1,zz}; 3 with-block templates", "cases": cases, "distinct": cases, "violations": viol, "sample": {"source": source(["p0"], [None], ["a0", "a1"], [("zz", "k0")])}}


def replay(case):
    got = env().from_string(case["source"]).render()
    return {"failing": got != case["want"], "call": case["source"], "result": got}


if __name__ == "__main__":
    main(run, replay)
