"""Bounded stand-in for C15: callers that bind local variables (assign, capture, for,
increment, cycle) named like the partial's variables around render/call; partial and macro
bodies that read and assign those names: the partial's output never depends on the
caller's locals, its assignments are invisible afterwards, it cannot include."""
import itertools

from bounded.common import main
from liquid import DictLoader, Environment
from liquid.exceptions import DisabledTagError, LiquidError
from liquid.extra import CallTag, MacroTag

BINDERS = ["", "{% assign x = 'CALLER' %}", "{% capture x %}CALLER{% endcapture %}", "{% increment x %}", "{% assign y = 'CY' %}{% assign x = y %}"]
WRAPS = ["{}", "{{% for x in (1..1) %}}{}{{% endfor %}}", "{{% for i in (1..2) %}}{}{{% endfor %}}", "{{% if true %}}{}{{% endif %}}"]
BODIES = ["[{{ x }}]", "[{{ x }}{% assign x = 'P' %}{{ x }}]", "[{% assign z = 'PZ' %}{{ z }}{{ y }}]", "[{{ forloop.index }}{{ i }}]", "[{% capture x %}PC{% endcapture %}{{ x }}]"]


def mkenv(parts):
    e = Environment(loader=DictLoader(parts))
    e.add_tag(MacroTag)
    e.add_tag(CallTag)
    return e


def run(tier, seed):
    viol = []
    cases = 0
    for binder, wrap, body in itertools.product(BINDERS, WRAPS, BODIES):
        for kind in ("render", "render-arg", "call"):
            cases += 1
            if kind == "render":
                use, parts, pre = "{% render 'p' %}", {"p": body}, ""
            elif kind == "render-arg":
                use, parts, pre = "{% render 'p', x: 'ARG' %}", {"p": body}, ""
            else:
                use, parts, pre = "{% call m %}", {}, "{% macro m %}" + body + "{% endmacro %}"
            src = pre + binder + wrap.format(use) + "|{{ x }}|{{ z }}"
            ref_src = pre + wrap.format(use)            # same call with NO caller locals
            e = mkenv(parts)
            try:
                got = e.from_string(src).render()
                ref = e.from_string(ref_src).render()
            except LiquidError as ex:
                continue
            # 1. the partial's own output does not depend on the caller's x / y
            part_out = got.split("|")[0]
            if binder == "{% increment x %}":
                part_out = part_out[1:] if part_out.startswith("0") else part_out
            for tok in ("CALLER", "CY"):
                if tok in part_out:
                    viol.append({"id": "partial-sees-caller-local", "witness": f"{kind}:reads:{tok}", "source": src, "got": got})
            # 2. assignments inside are invisible afterwards
            tail = got.split("|")[1:]
            if "P" in "".join(tail).replace("PZ", "~") or "PZ" in "".join(tail) or "PC" in "".join(tail):
                viol.append({"id": "partial-assignment-leaks", "witness": f"{kind}:leak", "source": src, "got": got})
    # 2b. nesting: a partial/macro/block body that itself renders or calls -- the innermost
    # template sees only ITS arguments and global data, whatever encloses it
    inner = "[{{ x }}{{ a }}{{ secret }}{{ g }}]"
    nest = {
        "p": inner,
        "outer": "{% assign x = 'OX' %}{% render 'p' %}",
        "pl": "{% for j in (1..1) %}[{{ forloop.parentloop.index }}]{% endfor %}",
        "outer_arg": "{% render 'p', x: 'ARG' %}",
        "base": "{% assign secret = 'BASE' %}{% block b %}{% render 'p' %}{% endblock %}",
        "child": "{% extends 'base' %}{% block b %}{% assign x = 'CX' %}{% render 'p' %}{{ block.super }}{% endblock %}",
        "child_macro": "{% extends 'base' %}{% block b %}{% macro m %}" + inner + "{% endmacro %}{% assign x = 'CX' %}{% call m %}{% endblock %}",
    }
    from liquid import Environment as _E
    en = _E(extra=True, loader=DictLoader(nest))
    nested = [
        ("render-in-render", "{% render 'outer', a: 'OUTERARG', x: 'OUTERX' %}", "[G]"),
        ("render-in-render-for", "{% assign xs = 'q,r' | split: ',' %}{% render 'outer' for xs as a %}", "[G][G]"),
        ("render-arg-in-render", "{% render 'outer_arg', a: 'OUTERARG' %}", "[ARGG]"),
        ("render-in-macro", "{% macro m a %}{% assign x = 'MX' %}{% render 'p' %}{% endmacro %}{% call m 'MACROARG' %}", "[G]"),
        ("macro-missing-argument", "{% macro m a %}[{{ a }}{{ g }}]{% endmacro %}{% assign a = 'CALLER' %}{% for a in (1..1) %}{% call m %}{% endfor %}", "[G]"),
        ("parentloop-in-render", "{% for i in (1..2) %}{% render 'pl' %}{% endfor %}", "[][]"),
        ("parentloop-in-call", "{% macro m %}{% for j in (1..1) %}[{{ forloop.parentloop.index }}]{% endfor %}{% endmacro %}{% for i in (1..2) %}{% call m %}{% endfor %}", "[][]"),
        ("call-in-block", None, "[G]"),
        ("render-in-block", None, "[G][G]"),
        ("render-in-base-block", None, "[G]"),
    ]
    for label, src, want in nested:
        cases += 1
        try:
            if label == "call-in-block":
                got = en.get_template("child_macro").render(g="G")
            elif label == "render-in-block":
                got = en.get_template("child").render(g="G")
            elif label == "render-in-base-block":
                got = en.get_template("base").render(g="G")
            else:
                got = en.from_string(src).render(g="G")
        except LiquidError as ex:
            got = "!" + type(ex).__name__
        if got != want:
            viol.append({"id": "partial-sees-enclosing-scope", "witness": f"nested:{label}", "source": src or label, "got": got, "want": want})
    # 2c. what it MUST see: its arguments and bound variable, with and without global data
    e = mkenv({"p": "[{{ x }}|{{ k }}|{{ forloop.index }}]"})
    for data in ({}, {"g": 1}):
        for src, want in (("{% assign y = 5 %}{% render 'p' with y as x %}", "[5||]"), ("{% assign ys = '7,8' | split: ',' %}{% render 'p' for ys as x %}", "[7||1][8||2]"),
                          ("{% render 'p', k: 'K' %}", "[|K|]"), ("{% assign y = 5 %}{% render 'p' with y as x, k: 'K' %}", "[5|K|]")):
            cases += 1
            got = e.from_string(src).render(**data)
            if got != want:
                viol.append({"id": "partial-misses-its-binding", "witness": f"binding:{'data' if data else 'nodata'}:{src.split('%}')[-2][-18:].strip()}", "source": src, "got": got, "want": want})
    # 3. include is disabled inside render
    e = mkenv({"p": "{% include 'q' %}", "q": "Q", "outer": "{% render 'p' %}"})
    for src in ("{% render 'p' %}", "{% include 'outer' %}"):
        cases += 1
        try:
            out = e.from_string(src).render()
            viol.append({"id": "include-allowed-in-render", "witness": "include-in-render", "source": src, "got": out})
        except DisabledTagError:
            pass
        except LiquidError as ex:
            viol.append({"id": "include-allowed-in-render", "witness": "include-in-render:" + type(ex).__name__, "source": src, "got": repr(ex)})
    return {"bound": f"{len(BINDERS)} caller binders x {len(WRAPS)} wrappers x {len(BODIES)} partial bodies x render/render-with-arg/call; include inside render", "cases": cases, "distinct": cases, "violations": viol, "sample": {"source": BINDERS[1] + "{% render 'p' %}", "p": BODIES[1]}}


def replay(case):
    return {"failing": True, "call": case["source"], "result": case["got"]}


if __name__ == "__main__":
    main(run, replay)
