"""Bounded stand-in for C01: run-time relational contract render_async == render (same output
or same Liquid error class), load_async == load (name, source, behaviour), analyze_async ==
analyze, over a template family x data sets x loaders (dict, choice, file-system, caching,
with and without namespace)."""
import asyncio
import itertools
import os
import tempfile

from bounded.common import main
from liquid import CachingDictLoader, CachingFileSystemLoader, ChoiceLoader, DictLoader, Environment, FileSystemLoader
from liquid.exceptions import LiquidError

PARTIALS = {
    "p": "[{{ x }}{{ it }}]", "dir/q.html": "q{{ forloop.index }}", "rec": "{% include 'rec' %}", "elsif": "{% if a %}A{% elsif b %}{% include 'p' %}{% else %}C{% endif %}",
    "base": "<{% block b %}base{% endblock %}>", "child": "{% extends 'base' %}{% block b %}child {{ block.super }}{% endblock %}", "ns/t": "namespaced",
}
TEMPLATES = [
    "{{ x }}", "{{ [x] }}", "{{ d[x] }}", "{{ d.a.b | plus: 1 }}", "{% if a %}A{% elsif b %}B{% else %}C{% endif %}", "{% unless a %}A{% elsif b %}B{% else %}C{% endunless %}",
    "{% for i in arr limit: 2 offset: 1 %}{{ i }}{% else %}e{% endfor %}", "{% for i in arr offset: continue %}{{ i }}{% endfor %}", "{% for i in (1..x) %}{{ forloop.rindex }}{% endfor %}",
    "{% tablerow i in arr cols: 2 %}{{ i }}{% endtablerow %}", "{% include 'p' %}", "{% include 'p' with arr %}", "{% include 'p' for arr %}", "{% render 'p', x: 1 %}", "{% render 'p' for arr as it %}",
    "{% render 'dir/q.html' for arr %}", "{% include 'nosuch' %}", "{% render 'elsif', a: false, b: true %}", "{% include 'elsif' %}", "{% case x %}{% when 1 %}one{% when 'a', 2 %}two{% else %}other{% endcase %}",
    "{% capture c %}{{ x | upcase }}{% endcapture %}{{ c }}", "{% assign z = arr | map: 'k' | join: ',' %}{{ z }}", "{% cycle 'a', 'b' %}{% cycle 'a', 'b' %}", "{% ifchanged %}{{ x }}{% endifchanged %}",
    "{% liquid assign q = 1\nif q\n echo q\nendif %}", "{{ x | default: 'd' }}", "{{ arr | first }}{{ arr | last }}", "{% increment c %}{% decrement c %}", "{% echo x | append: 'y' %}", "{{ x.y.z }}", "{{ 'a' | nosuchfilter }}",
    "{% include 'child' %}", "{% render 'child' %}", "{% if x contains 'a' %}y{% endif %}", "{% if x < 3 %}y{% endif %}", "{{ x | ceil }}",
]
DATA = [dict(x=1, a=False, b=True, arr=[1, 2, 3], d={"a": {"b": 2}, 1: "one"}), dict(x="abc", a=True, b=False, arr=[], d={}), dict(x=None, a=None, b=None, arr="str", d=None), dict(x=[1], arr=[{"k": 1}, {"k": 2}], d={"a": 1}), {}]


def both(env, src, data):
    def one(fn):
        try:
            return "ok", fn()
        except LiquidError as e:
            return "liquid", type(e).__name__
        except RecursionError:
            return "recursion", None
        except Exception as e:  # noqa: BLE001
            return "other", f"{type(e).__name__}: {e}"
    try:
        t = env.from_string(src)
    except LiquidError:
        return None
    s = one(lambda: t.render(**data))
    a = one(lambda: asyncio.run(t.render_async(**data)))
    return s, a


def run(tier, seed):
    viol = []
    cases = 0
    from liquid.extra import add_tags_and_filters
    env = Environment(loader=DictLoader(PARTIALS))
    add_tags_and_filters(env)
    envs = [("default", env)]
    e2 = Environment(loader=DictLoader(PARTIALS), autoescape=True)
    add_tags_and_filters(e2)
    envs.append(("autoescape", e2))
    for (ename, e), src, data in itertools.product(envs, TEMPLATES, DATA):
        cases += 1
        r = both(e, src, data)
        if r is None:
            continue
        s, a = r
        if s != a:
            viol.append({"id": "render-differs", "witness": "render:" + src[:30], "source": src, "got": f"sync={s} async={a}", "data": repr(data), "env": ename})
    # loaders
    tmp = tempfile.mkdtemp(prefix="c01_")
    try:
        os.makedirs(os.path.join(tmp, "a"))
        for name, text in (("a/b.html", "AB {{ x }}"), ("top.html", "TOP"), ("a/c.liquid", "C")):
            with open(os.path.join(tmp, name), "w") as fd:
                fd.write(text)
        loaders = {
            "dict": lambda: DictLoader({"a/b.html": "AB {{ x }}", "top.html": "TOP", "ns/a/b.html": "NS"}),
            "caching-dict": lambda: CachingDictLoader({"a/b.html": "AB {{ x }}", "top.html": "TOP", "ns/a/b.html": "NS"}, namespace_key="ns"),
            "choice": lambda: ChoiceLoader([DictLoader({"top.html": "TOP"}), DictLoader({"a/b.html": "AB {{ x }}"})]),
            "fs": lambda: FileSystemLoader(tmp),
            "caching-fs": lambda: CachingFileSystemLoader(tmp, namespace_key="ns"),
        }
        for lname, mk in loaders.items():
            for tname in ("a/b.html", "top.html", "missing.html"):
                for kw in ({}, {"ns": "ns"}):
                    cases += 1
                    def load(fn_name):
                        env_ = Environment(loader=mk())
                        try:
                            if fn_name == "sync":
                                t = env_.get_template(tname, **kw)
                            else:
                                t = asyncio.run(env_.get_template_async(tname, **kw))
                            return ("ok", t.name, t.source if hasattr(t, "source") else None, t.render(x=1), str(t.path))
                        except LiquidError as e:
                            return ("liquid", type(e).__name__)
                        except Exception as e:  # noqa: BLE001
                            return ("other", f"{type(e).__name__}: {e}")
                    s, a = load("sync"), load("async")
                    if s != a:
                        viol.append({"id": "load-differs", "witness": f"load:{lname}:{tname}:{'ns' if kw else ''}", "source": f"{lname}.get_template({tname!r}, **{kw})", "got": f"sync={s} async={a}"})
    finally:
        import shutil
        shutil.rmtree(tmp, ignore_errors=True)
    # static analysis
    for src in TEMPLATES:
        cases += 1
        try:
            t = env.from_string(src)
        except LiquidError:
            continue
        def ana(fn):
            try:
                r = fn()
                return ("ok", sorted(r.variables), sorted(r.global_variables), sorted(r.local_variables), sorted(r.filters), sorted(r.tags))
            except LiquidError as e:
                return ("liquid", type(e).__name__)
            except Exception as e:  # noqa: BLE001
                return ("other", f"{type(e).__name__}: {e}")
        s = ana(lambda: t.analyze())
        a = ana(lambda: asyncio.run(t.analyze_async()))
        if s != a:
            viol.append({"id": "analyze-differs", "witness": "analyze:" + src[:30], "source": src, "got": f"sync={s} async={a}"})
    return {"bound": f"{len(TEMPLATES)} templates x {len(DATA)} data sets x 2 environments; 5 loaders x 3 names x with/without namespace; analysis of every template", "cases": cases, "distinct": cases, "violations": viol, "sample": {"source": TEMPLATES[1]}}


def replay(case):
    return {"failing": True, "call": case.get("source"), "result": case.get("got")}


if __name__ == "__main__":
    main(run, replay)
